"""C17 - local docker execution runs the right image on the right files, or raises.

The module is never imported by the 316 tests (python_on_whales is missing), so
every fact below is new.  Decided statically on common/local_dataset.py and the
three backend subclasses, plus agreement with the runner scripts.
"""
from __future__ import annotations

import ast
import re

from sa.core.common import AnalysisError, Collector, REPO
from sa.core.paths import enclosing, enumerate_paths, guards, parent_map
from sa.core.pyfacts import Repo, arg, call_name, const_str, kwarg, src, walk_no_nested, ordk, ordk_end

EXPLANATION = (
    "Static path/shape analysis of LocalDataset.__init__ and execute_result_async and of the three dataset subclasses: "
    "R1 constructor validation (empty list and missing file raise, image is image:tag); R2 event order on every path "
    "(fresh executor -> docker metadata type registered -> package generated -> file list written as /data/<name> in "
    "self.files order with a same-directory equality test that raises -> docker.run), the raise dominating docker.run; "
    "R3 the docker.run call shape (image variable with the metadata override md[-1].image under len(md) > 0, command "
    "/scripts/<main_script>, the three mounts with modes, one entry per cache volume, remove=True); R4 every except "
    "clause re-raises and the result is read after the try through _extract_result_TTree (copy run_dir/filename to "
    "output_dir/filename); R5 the working directory is a tempfile.TemporaryDirectory context manager (or a context manager "
    "with try/finally cleanup) enclosing everything; R6 agreement with runner.sh mount points / file names and per-backend executors."
)
ASSUMPTIONS = [
    "python_on_whales.docker.run(image, command, volumes=, remove=, stream=) has its documented meaning",
    "tempfile.TemporaryDirectory removes the directory on every exit of the with block",
]


def _single_assign(fn, name):
    vals = [n.value for n in walk_no_nested(fn) if isinstance(n, ast.Assign) and len(n.targets) == 1
            and isinstance(n.targets[0], ast.Name) and n.targets[0].id == name]
    return vals


def conditional_defs_expr(e):
    """the values a (possibly conditional) expression can take: [(value, None)]"""
    if isinstance(e, ast.IfExp):
        return conditional_defs_expr(e.body) + conditional_defs_expr(e.orelse)
    return [(e, None)]


def check(col: Collector, tier: str):
    repo = Repo()
    ld = repo.find_class("LocalDataset")
    init = ld.methods.get("__init__")
    ex = ld.methods.get("execute_result_async")
    if init is None or ex is None:
        raise AnalysisError("LocalDataset.__init__ / execute_result_async not found")
    col.info["functions"] = [init.short, ex.short]

    # ------------------------------------------------------------------ R1 constructor
    col.floor("C17.R1", 4)
    raises = [r for r in walk_no_nested(init.node) if isinstance(r, ast.Raise)]
    pm = parent_map(init.node)
    empty_ok = False
    missing_ok = False
    for r in raises:
        gs = guards(init.node, r, pm)
        for t, truth in gs:
            # (E-NORM N18: an emptiness test reads `not self.files`, however it is spelled)
            if (not truth) and src(t) == "self.files":
                empty_ok = True
            if (not truth) and isinstance(t, ast.Call) and call_name(t) == "exists":
                loops = enclosing(init.node, r, (ast.For,), pm)
                if loops and src(loops[0].iter) == "self.files" and src(t.func.value) == src(loops[0].target):
                    missing_ok = True
    # the default output directory: tempfile.gettempdir() - the module attribute tempfile.tempdir is None until something has called
    # gettempdir(), so a constructor that reads it (or asserts on it) fails in a fresh process
    lazy = [f"line {n.lineno}" for n in ast.walk(init.node) if isinstance(n, ast.Attribute) and n.attr == "tempdir" and src(n.value) == "tempfile"]
    col.add("C17.R1", init.short, "default-output-directory-available-in-a-fresh-process", not lazy,
            f"tempfile.tempdir is read at {lazy}: it is None until tempfile.gettempdir() has run once in the process (AssertionError / Path(None)); "
            "use tempfile.gettempdir()", init.loc)
    col.add("C17.R1", init.short, "empty-file-list-raises", empty_ok, "an empty file list must raise in the constructor", init.loc)
    col.add("C17.R1", init.short, "missing-file-raises", missing_ok,
            "every file of self.files must be tested with exists() and a missing one must raise", init.loc)
    img = [n for n in walk_no_nested(init.node) if isinstance(n, ast.Assign) and src(n.targets[0]) == "self._docker_image"]
    ok = len(img) == 1 and isinstance(img[0].value, ast.JoinedStr) and _fstring_shape(img[0].value) == ["{docker_image}", ":", "{docker_tag}"]
    col.add("C17.R1", init.short, "image-is-image:tag", ok, f"self._docker_image must be f'{{docker_image}}:{{docker_tag}}' (found {src(img[0].value) if img else None})", init.loc)
    from sa.props._tr import mapped_list
    ml = mapped_list(init.node, "self.files")
    # one entry per given file, in order, each the file itself or Path(<file>)
    ok = ml is not None and not any(isinstance(c, ast.Call) and call_name(c) in ("set", "sorted", "reversed", "frozenset", "fromkeys", "unique")
                                    for c in ast.walk(init.node) if ml[0] in src(c))
    if ok:
        vals = {src(v_) for v_, _ in conditional_defs_expr(ml[1])}
        ok = vals <= {ml[2], f"Path({ml[2]})"} and bool(vals)
    col.add("C17.R1", init.short, "all-files-kept-in-order", ok, "self.files must hold every given file, in order", init.loc)

    # ------------------------------------------------------------------ R5 temp dir encloses everything
    col.floor("C17.R5", 2)
    body = [s for s in ex.node.body if not (isinstance(s, ast.Expr) and isinstance(s.value, ast.Constant))]
    ok5 = len(body) == 1 and isinstance(body[0], ast.With) and len(body[0].items) == 1
    how = ""
    if ok5:
        ce = body[0].items[0].context_expr
        cn = repo.canon(ex.module, ce.func) if isinstance(ce, ast.Call) else ""
        if cn == "tempfile.TemporaryDirectory":
            how = "tempfile.TemporaryDirectory()"
        else:
            how = _safe_context_manager(repo, ex, ce)
            ok5 = bool(how)
    col.add("C17.R5", ex.short, "tempdir-context-manager-encloses-all", ok5,
            "the whole method body must run inside `with tempfile.TemporaryDirectory()` (or a context manager whose cleanup "
            f"is in a finally): found {how or (src(body[0].items[0].context_expr) if body and isinstance(body[0], ast.With) else 'no with')}", ex.loc)
    no_mkdtemp = not any(isinstance(c, ast.Call) and call_name(c) == "mkdtemp" for c in ast.walk(ex.node))
    col.add("C17.R5", ex.short, "no-unmanaged-mkdtemp", no_mkdtemp, "mkdtemp() leaves the directory behind", ex.loc)
    if not (len(body) == 1 and isinstance(body[0], ast.With)):
        return
    w = body[0]
    run_dir_var = src(w.items[0].optional_vars) if w.items[0].optional_vars is not None else None

    # ------------------------------------------------------------------ R2 order on every path
    col.floor("C17.R2", 6)
    paths = enumerate_paths(ex.node, unroll=2)
    normal = [p for p in paths if p.status == "return" and not any(e.kind == "except" for e in p.events)]
    col.info["paths"] = len(paths)
    if not normal:
        raise AnalysisError("execute_result_async has no normal returning path")

    def idx(p, pred):
        for i, e in enumerate(p.events):
            if pred(e):
                return i
        return -1

    is_call = lambda name: (lambda e: e.kind == "call" and call_name(e.node) == name)
    order_ok = True
    why = ""
    for p in normal:
        i_md = idx(p, is_call("add_extended_md"))
        i_tr = idx(p, is_call("apply_ast_transformations"))
        i_wr = idx(p, is_call("write_cpp_files"))
        i_run = idx(p, lambda e: e.kind == "call" and src(e.node.func) == "docker.run")
        i_ext = idx(p, is_call("_extract_result_TTree"))
        seq = [i_md, i_tr, i_wr, i_run, i_ext]
        if -1 in seq or seq != sorted(seq):
            order_ok = False
            why = f"order of (add_extended_md, apply_ast_transformations, write_cpp_files, docker.run, _extract_result_TTree) is {seq}"
            break
    col.add("C17.R2", ex.short, "event-order", order_ok,
            "register docker metadata -> transform -> write package -> docker.run -> extract result on every normal path; " + why, ex.loc)
    # write_cpp_files(apply_ast_transformations(a), run_dir)
    wr = [c for c in ast.walk(ex.node) if isinstance(c, ast.Call) and call_name(c) == "write_cpp_files"]
    ok = len(wr) == 1 and isinstance(wr[0].args[0], ast.Call) and call_name(wr[0].args[0]) == "apply_ast_transformations" \
        and src(wr[0].args[0].args[0]) == ex.node.args.args[1].arg
    rd = _resolve(ex.node, wr[0].args[1]) if wr and len(wr[0].args) > 1 else None
    ok = ok and rd is not None and run_dir_var is not None and run_dir_var in src(rd)
    col.add("C17.R2", ex.short, "package-generated-from-the-query-into-the-temp-dir", ok,
            "write_cpp_files(exe.apply_ast_transformations(<the query ast>), <temp run dir>)", ex.loc)
    # docker metadata type registered under the key later read
    amd = [c for c in ast.walk(ex.node) if isinstance(c, ast.Call) and call_name(c) == "add_extended_md"]
    rmd = [c for c in ast.walk(ex.node) if isinstance(c, ast.Call) and call_name(c) == "extended_md"]
    key_w = None
    if amd and isinstance(amd[0].args[0], ast.Dict) and len(amd[0].args[0].keys) == 1:
        key_w = const_str(amd[0].args[0].keys[0])
        v = amd[0].args[0].values[0]
        spec_ok = isinstance(v, ast.Call) and call_name(v) == "DockerImageSpecification" and src(v.args[0]) == "self._docker_image"
    else:
        spec_ok = False
    key_r = const_str(rmd[0].args[0]) if rmd else None
    col.add("C17.R2", ex.short, "docker-metadata-key-agreement", key_w is not None and key_w == key_r and spec_ok,
            f"metadata type registered under {key_w!r} with DockerImageSpecification(self._docker_image) and read back under {key_r!r}", ex.loc)

    # the metadata found by THIS translation is read back after write_cpp_files, which ends with reset():
    # the cell behind extended_md() must therefore survive reset() and be filled by this query only.
    exq = repo.find_class("executor", hint="common.executor")
    em = exq.methods.get("extended_md")
    rs = exq.methods.get("reset")
    if em is None or rs is None:
        raise AnalysisError("executor.extended_md / reset not found")
    read_cells = {n.attr for n in ast.walk(em.node) if isinstance(n, ast.Attribute) and isinstance(n.value, ast.Name) and n.value.id == "self"}
    reset_cells = {t.attr for n in ast.walk(rs.node) if isinstance(n, ast.Assign) for t in n.targets
                   if isinstance(t, ast.Attribute) and isinstance(t.value, ast.Name) and t.value.id == "self"}
    i_ok = all(idx(p, is_call("write_cpp_files")) < idx(p, is_call("extended_md")) for p in normal)
    col.add("C17.R2", ex.short, "docker-metadata-readable-after-package-generation", not (read_cells & reset_cells) or not i_ok,
            f"extended_md() reads {sorted(read_cells)} after write_cpp_files, which finishes with reset(); reset re-initialises "
            f"{sorted(read_cells & reset_cells)}: the docker image chosen by the query's metadata would always be lost", ex.loc)

    # every docker metadata block of the query reaches extended_md("docker"), in query order (the last one wins)
    pmd = repo.function("process_metadata")
    # the extended branch: the statements from `copy(<prototypes>[md_type])` to the end of their block, reached only when md_type is a
    # registered extended type (however that test is spelled: elif ... in, or a guard clause raising on `not in`)
    ep = pmd.node.args.args[1].arg
    pmp = parent_map(pmd.node)
    cps = [c for c in ast.walk(pmd.node) if isinstance(c, ast.Call) and call_name(c) == "copy" and f"{ep}[md_type]" in src(c)]
    if len(cps) != 1:
        raise AnalysisError("process_metadata: extended-metadata branch not found (no single copy(<prototypes>[md_type]))")
    st0 = cps[0]
    while st0 in pmp and not isinstance(st0, ast.stmt):
        st0 = pmp[st0]
    blk = None
    for fld in ("body", "orelse", "finalbody"):
        lst = getattr(pmp.get(st0), fld, None)
        if isinstance(lst, list) and st0 in lst:
            blk = lst[lst.index(st0):]
    under = any(tr_ and isinstance(t, ast.Compare) and isinstance(t.ops[0], ast.In) and src(t.left) == "md_type" and src(t.comparators[0]) == ep
                for t, tr_ in guards(pmd.node, st0, pmp))
    if blk is None or not under:
        raise AnalysisError("process_metadata: extended-metadata branch not found (copy not under `md_type in <prototypes>`)")
    fake = ast.FunctionDef(name="_", args=pmd.node.args, body=blk, decorator_list=[], lineno=st0.lineno)
    eps = enumerate_paths(fake, unroll=1)
    ok = bool(eps) and all(p.status == "end" and any(e.kind == "call" and call_name(e.node) == "append" and src(e.node.func.value) == "cpp_funcs"
                                                      for e in p.events) for p in eps)
    cp_ = [c for c in ast.walk(fake) if isinstance(c, ast.Call) and call_name(c) == "copy"]
    ok = ok and len(cp_) == 1 and "extended_properties[md_type]" in src(cp_[0]).replace(pmd.node.args.args[1].arg, "extended_properties")
    col.add("C17.R2", "process_metadata.extended", "every-extended-block-kept-in-order", ok,
            "each extended (docker) metadata block must be copied from its prototype, filled and appended unconditionally: de-duplicating equal "
            "blocks changes which one is last, and the dataset runs md[-1].image", pmd.loc)
    aat = exq.methods.get("apply_ast_transformations")
    okf = False
    for n in walk_no_nested(aat.node):
        if isinstance(n, ast.For) and src(n.iter) == "cpp_functions":
            for c in ast.walk(n):
                if isinstance(c, ast.Call) and call_name(c) == "append" and "_found_extended_md[" in src(c.func.value) and src(c.args[0]) == src(n.target):
                    okf = True
    col.add("C17.R2", "executor.apply_ast_transformations", "found-metadata-recorded-in-query-order", okf,
            "every extended metadata item must be appended to _found_extended_md[<its key>] while iterating the metadata in order", aat.loc)

    # file list loop
    loops = [n for n in walk_no_nested(ex.node) if isinstance(n, ast.For) and src(n.iter) == "self.files"]
    ok_loop = len(loops) == 1
    col.add("C17.R2", ex.short, "file-list-loop-over-self.files", ok_loop, "one loop over self.files (all files, in order) must write the list", ex.loc)
    if ok_loop:
        lp = loops[0]
        u = src(lp.target)
        writes = [c for c in ast.walk(lp) if isinstance(c, ast.Call) and call_name(c) == "write"]
        wok = False
        if len(writes) == 1 and isinstance(writes[0].args[0], ast.JoinedStr):
            shape = _fstring_shape(writes[0].args[0], resolver=lambda e: src(_resolve(ex.node, e)))
            wok = shape == ["/data/", "{" + u + ".name}", "\n"]
            gsw = guards(ex.node, writes[0], parent_map(ex.node))
            wok = wok and not [g for g in gsw if not isinstance(g[0], ast.Constant)]
        col.add("C17.R2", ex.short, "entry-is-/data/<name>-per-file", wok,
                "each file must be listed unconditionally as '/data/' + <file>.name + newline", ex.loc)
        # written into filelist.txt inside the run dir
        opens = [c for c in ast.walk(ex.node) if isinstance(c, ast.Call) and call_name(c) == "open"]
        fl_ok = False
        for o in opens:
            if isinstance(o.args[0], ast.JoinedStr):
                sh = _fstring_shape(o.args[0], resolver=lambda e: src(_resolve(ex.node, e)))
                mode = const_str(o.args[1]) if len(o.args) > 1 else None
                if len(sh) == 2 and sh[1] == "/filelist.txt" and run_dir_var and run_dir_var in sh[0] and mode == "w":
                    fl_ok = True
        col.add("C17.R2", ex.short, "filelist.txt-in-run-dir-truncated", fl_ok,
                "the list must be written to <run dir>/filelist.txt opened with mode 'w'", ex.loc)
        # same-directory test: equality between <u>.parent and the remembered directory, raising, before docker.run
        pmx = parent_map(ex.node)
        same_ok = False
        for r in [r for r in ast.walk(lp) if isinstance(r, ast.Raise)]:
            for t, truth in guards(ex.node, r, pmx):
                if isinstance(t, ast.Compare) and len(t.ops) == 1 and (
                        (isinstance(t.ops[0], ast.NotEq) and truth) or (isinstance(t.ops[0], ast.Eq) and not truth)):
                    raw = [t.left, t.comparators[0]]

                    cur_forms = (f"{u}.parent", f"{u}.absolute().parent", f"{u}.parent.absolute()")      # the file's own directory (absolute or as given)

                    def is_current(e):
                        if src(e) in cur_forms:
                            return True
                        if isinstance(e, ast.Name):
                            vals = [n.value for n in ast.walk(lp) if isinstance(n, ast.Assign) and src(n.targets[0]) == e.id]
                            return len(vals) == 1 and src(vals[0]) in cur_forms
                        return False

                    for cur_side, other in ((raw[0], raw[1]), (raw[1], raw[0])):
                        if is_current(cur_side) and isinstance(other, ast.Name) and src(other) != src(cur_side) and \
                                (src(cur_side) in cur_forms or not is_current(other)):
                            # the other side is the remembered first directory: assigned from the current parent in the loop
                            rem = [n for n in ast.walk(lp) if isinstance(n, ast.Assign) and src(n.targets[0]) == other.id
                                   and (is_current(n.value))]
                            rem += [n for n in walk_no_nested(ex.node) if isinstance(n, ast.Assign) and src(n.targets[0]) == other.id
                                    and src(n.value) in ("self.files[0].parent",)]
                            if rem:
                                same_ok = True
        col.add("C17.R2", ex.short, "same-directory-equality-test-raises", same_ok,
                "every file's parent must be compared for (in)equality with the first file's parent and a difference must raise "
                "(an ancestor/prefix test lets a sub-directory file through, which is then absent under /data)", ex.loc)
        # the raise dominates docker.run: the loop statement precedes the docker.run statement in the with body
        run_calls = [c for c in ast.walk(ex.node) if isinstance(c, ast.Call) and src(c.func) == "docker.run"]
        dom = len(run_calls) == 1 and ordk_end(lp) < ordk(run_calls[0]) and all(
            any(e.node is lp and e.kind in ("iter", "cond") for e in p.events[:idx(p, lambda e: e.kind == "call" and src(e.node.func) == "docker.run")])
            for p in normal)
        col.add("C17.R2", ex.short, "validation-before-container-start", dom,
                "the file loop (with its raise) must complete before docker.run on every path", ex.loc)

    # ------------------------------------------------------------------ R3 call shape
    check_run_shape(col, repo, ex, run_dir_var)
    # ------------------------------------------------------------------ R4 failure propagates / result
    check_failure(col, repo, ex, run_dir_var)
    # ------------------------------------------------------------------ R6 cross artefacts
    check_cross(col, repo, ex)


def _fstring_shape(js: ast.JoinedStr, resolver=None):
    out = []
    for v in js.values:
        if isinstance(v, ast.Constant):
            out.append(v.value)
        else:
            out.append("{" + (resolver(v.value) if resolver else src(v.value)) + "}")
    return out


def _resolve(fn, e, depth=0):
    while isinstance(e, ast.Name) and depth < 6:
        vals = _single_assign(fn, e.id)
        if len(vals) != 1:
            return e
        e = vals[0]
        depth += 1
    return e


def _resolve_in(scope, e, depth=0):
    while isinstance(e, ast.Name) and depth < 6:
        vals = [n.value for n in ast.walk(scope) if isinstance(n, ast.Assign) and len(n.targets) == 1
                and isinstance(n.targets[0], ast.Name) and n.targets[0].id == e.id and not isinstance(n.value, ast.Name)]
        vals += [n.value for n in ast.walk(scope) if isinstance(n, ast.Assign) and len(n.targets) == 1
                 and isinstance(n.targets[0], ast.Name) and n.targets[0].id == e.id and isinstance(n.value, ast.Name)]
        if len(vals) != 1:
            return e
        e = vals[0]
        depth += 1
    return e


def _safe_context_manager(repo: Repo, f, ce) -> str:
    if not isinstance(ce, ast.Call):
        return ""
    for g in repo.resolve_call(f, ce):
        if not any("contextmanager" in src(d) for d in g.node.decorator_list):
            continue
        pm = parent_map(g.node)
        for y in [n for n in ast.walk(g.node) if isinstance(n, ast.Yield)]:
            tries = enclosing(g.node, y, (ast.Try,), pm)
            for t in tries:
                if t.finalbody and any(isinstance(c, ast.Call) and call_name(c) in ("rmtree", "cleanup") for s in t.finalbody for c in ast.walk(s)):
                    return f"{g.short} (yield inside try/finally cleanup)"
            withs = enclosing(g.node, y, (ast.With,), pm)
            for wi in withs:
                if any(isinstance(i.context_expr, ast.Call) and repo.canon(g.module, i.context_expr.func) == "tempfile.TemporaryDirectory" for i in wi.items):
                    return f"{g.short} (yield inside with TemporaryDirectory)"
    return ""


def check_run_shape(col: Collector, repo: Repo, ex, run_dir_var):
    col.floor("C17.R3", 7)
    fn = ex.node
    runs = [c for c in ast.walk(fn) if isinstance(c, ast.Call) and src(c.func) == "docker.run"]
    if len(runs) != 1:
        col.add("C17.R3", ex.short, "single-docker.run", False, f"{len(runs)} docker.run call sites", ex.loc)
        return
    r = runs[0]
    loc = f"{ex.module.rel}:{r.lineno}"
    # image: local whose definitions are self._docker_image and, under len(md) > 0, md[-1].image with md = exe.extended_md("docker")
    img = arg(r, 0, "image")
    ok = isinstance(img, ast.Name)
    defs = []
    if ok:
        pm = parent_map(fn)
        for n in walk_no_nested(fn):
            if isinstance(n, ast.Assign) and src(n.targets[0]) == img.id:
                defs.append((n, guards(fn, n, pm)))
    over = []
    mdv = None
    for d, g in defs:
        v = d.value
        if isinstance(v, ast.Attribute) and v.attr == "image" and isinstance(v.value, ast.Subscript) and src(v.value.slice) == "-1":
            mdv = src(v.value.value)
            mdval = _single_assign(fn, mdv)
            guarded = any(truth and src(t) == mdv for t, truth in g)           # "some docker metadata is present" (E-NORM N18)
            if len(mdval) == 1 and isinstance(mdval[0], ast.Call) and call_name(mdval[0]) == "extended_md" and guarded:
                over.append(d)
    # the default: assigned before the override unconditionally, or in the branch where no metadata is present
    base = [d for d, g in defs if src(d.value) == "self._docker_image"
            and [(src(t), tr_) for t, tr_ in g if not isinstance(t, ast.Constant)] in ([], [(mdv, False)])]
    if base and over and not [x for x in guards(fn, base[0], pm) if not isinstance(x[0], ast.Constant)]:
        base = base if ordk(base[0]) < ordk(over[0]) else []
    col.add("C17.R3", ex.short, "image-default-and-metadata-override", ok and len(base) == 1 and len(over) == 1 and len(defs) == 2,
            "the image passed to docker.run must be self._docker_image, overridden by the LAST docker metadata (md[-1].image) only when some is present "
            f"(definitions: {[src(d) for d, _ in defs]})", loc)
    cmd = arg(r, 1, "command")
    cok = isinstance(cmd, ast.List) and len(cmd.elts) == 1 and isinstance(cmd.elts[0], ast.JoinedStr) \
        and _fstring_shape(cmd.elts[0]) == ["/scripts/", "{f_spec.main_script}"]
    fs = _single_assign(fn, "f_spec")
    cok = cok and len(fs) == 1 and isinstance(fs[0], ast.Call) and call_name(fs[0]) == "write_cpp_files"
    col.add("C17.R3", ex.short, "command-is-/scripts/<main_script>", cok, f"command is {src(cmd)}", loc)
    col.add("C17.R3", ex.short, "remove=True", src(kwarg(r, "remove")) == "True", "the container must be removed after the run", loc)
    vol = kwarg(r, "volumes")
    vdef = _single_assign(fn, vol.id) if isinstance(vol, ast.Name) else []
    mounts = []
    if len(vdef) == 1 and isinstance(vdef[0], ast.List):
        for e in vdef[0].elts:
            if isinstance(e, ast.Tuple):
                mounts.append(tuple(src(x) for x in e.elts))
    want = {("f_spec.output_path", "'/scripts'", "'ro'"), ("f_spec.output_path", "'/results'", "'rw'")}
    have = set(mounts)
    data = [m for m in mounts if len(m) == 3 and m[1] in ("'/data/'", "'/data'") and m[2] == "'ro'"]
    col.add("C17.R3", ex.short, "mounts:/scripts-ro,/results-rw", want <= have and len(mounts) == 3,
            f"package must be mounted read-only at /scripts and read-write at /results (mounts: {mounts})", loc)
    col.add("C17.R3", ex.short, "mount:/data-ro-is-the-files'-directory", len(data) == 1 and data[0][0] == "datafile_dir",
            f"the data files' directory must be mounted read-only at /data (found {data})", loc)
    # the directory that is mounted: docker reads a bind-mount source that is not an absolute path as the NAME of a volume, so the directory
    # must be made absolute; and it must be the directory of the very path whose .name is listed in filelist.txt - resolve() follows a
    # symbolic link into another directory, where the link's own name need not exist
    dd = [n.value for n in ast.walk(fn) if isinstance(n, ast.Assign) and len(n.targets) == 1 and src(n.targets[0]) == "datafile_dir" and src(n.value) != "None"]
    from sa.props._tr import deep as _deep
    dsrc = [src(_deep(fn, d)) for d in dd]
    files_loop = [n for n in walk_no_nested(fn) if isinstance(n, ast.For) and src(n.iter) == "self.files"]
    uvar = src(files_loop[0].target) if len(files_loop) == 1 else "?"
    absolute = bool(dsrc) and all(t in (f"{uvar}.absolute().parent", f"{uvar}.parent.absolute()") for t in dsrc)
    col.add("C17.R3", ex.short, "data-directory-mounted-by-absolute-path", absolute,
            f"the /data mount source is {dsrc}: it must be the absolute directory of the listed file (<file>.absolute().parent) - a relative "
            "directory is taken by docker for a volume name, a resolve()d one need not contain the listed name", loc)
    # output_path is the run dir: write_cpp_files(..., run dir) returns ExecutionInfo(output_path=run dir) - checked in R2 + C02
    # cache volumes: one appended entry per docker_cache_volume()
    ok = False
    helpers = []          # repo functions the loop hands the volume info to
    mutated = []          # writes to the (shared) volume info objects
    name_ok, name_src, name_loc = False, None, loc
    for n in walk_no_nested(fn):
        if isinstance(n, ast.For) and isinstance(n.iter, ast.Call) and src(n.iter) == "self.docker_cache_volume()":
            tgt = src(n.target)
            apps = [c for c in ast.walk(n) if isinstance(c, ast.Call) and call_name(c) == "append" and isinstance(vol, ast.Name)
                    and src(c.func.value) == vol.id]
            pmn = parent_map(fn)
            for c in ast.walk(n):
                if isinstance(c, ast.Call) and any(isinstance(a, ast.Name) and a.id == tgt for a in c.args):
                    for g in repo.resolve_call(ex, c):
                        if g.module.name.startswith("func_adl_xAOD"):
                            helpers.append((c, g))
            # aliases of the loop variable inside the loop: the variable itself and results of helpers that return their parameter
            aliases = {tgt}
            derived = {}      # local <- helper(<info>): a volume description computed from the info
            for c, g in helpers:
                for a in ast.walk(n):
                    if isinstance(a, ast.Assign) and a.value is c and isinstance(a.targets[0], ast.Name):
                        derived[a.targets[0].id] = g
                prm = g.node.args.args[0].arg if g.node.args.args else None
                if prm and any(isinstance(r, ast.Return) and isinstance(r.value, ast.Name) and r.value.id == prm for r in walk_no_nested(g.node)):
                    for a in ast.walk(n):
                        if isinstance(a, ast.Assign) and a.value is c and isinstance(a.targets[0], ast.Name):
                            aliases.add(a.targets[0].id)
                for w in ast.walk(g.node):
                    if isinstance(w, ast.Attribute) and isinstance(w.ctx, (ast.Store, ast.Del)) and isinstance(w.value, ast.Name) and w.value.id == prm:
                        mutated.append(f"{g.short}:{src(w)}")
                    if isinstance(w, ast.Call) and call_name(w) in ("setattr", "delattr") and w.args and src(w.args[0]) == prm:
                        mutated.append(f"{g.short}:{src(w)}")
            for w in ast.walk(n):
                if isinstance(w, ast.Attribute) and isinstance(w.ctx, (ast.Store, ast.Del)) and isinstance(w.value, ast.Name) and w.value.id in aliases:
                    mutated.append(f"{ex.short}:{src(w)}")
            if len(apps) == 1 and isinstance(apps[0].args[0], ast.Tuple) and len(apps[0].args[0].elts) >= 2 \
                    and not [g for g in guards(fn, apps[0], pmn) if not isinstance(g[0], ast.Constant)]:
                t = apps[0].args[0]
                first = _resolve_in(n, t.elts[0])
                mp = t.elts[1]
                mp_ok = isinstance(mp, ast.Attribute) and mp.attr == "mount_point" and isinstance(mp.value, ast.Name) and (mp.value.id in aliases or mp.value.id in derived)
                # the volume name: <helper>(<info>) whose single return is built from <param>.docker_name, or that expression in line
                if isinstance(first, ast.Call) and any(c is first for c, _ in helpers):
                    g = [g for c, g in helpers if c is first][0]
                    prm = g.node.args.args[0].arg
                    rets = [x for x in walk_no_nested(g.node) if isinstance(x, ast.Return)]
                    name_src = src(rets[0].value) if rets else None
                    name_ok = len(rets) == 1 and f"{prm}.docker_name" in name_src
                    name_loc = g.loc
                elif isinstance(first, ast.Attribute) and first.attr == "docker_name" and isinstance(first.value, ast.Name) and first.value.id in derived:
                    g = derived[first.value.id]
                    prm = g.node.args.args[0].arg
                    name_src = f"{src(first)} with {first.value.id} = {g.short}({tgt})"
                    name_ok = any(isinstance(a, ast.Attribute) and a.attr == "docker_name" and isinstance(a.ctx, ast.Load) and src(a.value) == prm
                                  for a in ast.walk(g.node))
                    name_loc = g.loc
                else:
                    name_src = src(first)
                    name_ok = any(isinstance(a, ast.Attribute) and a.attr == "docker_name" and isinstance(a.value, ast.Name) and a.value.id == tgt
                                  for a in ast.walk(first))
                ok = mp_ok and name_ok
    col.add("C17.R3", ex.short, "one-mount-per-cache-volume", ok,
            "every docker_cache_volume() must be appended as (<name derived from its docker_name>, <its mount point>)", loc)
    col.add("C17.R3", "cache-volume-name", "name-derived-from-volume-info", name_ok,
            f"volume name must be derived from the volume info's docker_name ({name_src})", name_loc)
    col.add("C17.R3", ex.short, "cache-volume-infos-not-mutated", not mutated,
            f"docker_cache_volume() may hand out shared objects: writing to them makes the mounted volume depend on earlier runs ({mutated})", loc)
    # the volumes list is passed whole and the loop runs before docker.run
    col.add("C17.R3", ex.short, "volumes-passed-whole", isinstance(vol, ast.Name), f"volumes={src(vol)}", loc)


def check_failure(col: Collector, repo: Repo, ex, run_dir_var):
    col.floor("C17.R4", 5)
    fn = ex.node
    handlers = [h for h in ast.walk(fn) if isinstance(h, ast.ExceptHandler)]
    for i, h in enumerate(handlers):
        last = h.body[-1] if h.body else None
        reraises = isinstance(last, ast.Raise) and (last.exc is None or (h.name and src(last.exc) == h.name))
        col.add("C17.R4", ex.short, f"except-clause-{i}-re-raises:{src(h.type) if h.type else 'bare'}"[:80], reraises,
                "a container failure must propagate to the caller: the handler must end with `raise`", f"{ex.module.rel}:{h.lineno}")
    # the log dump runs on the success path and inside the failure handler (before the re-raise): a file of the run directory that is not
    # text must not make it raise - the result would be lost, or the container's error replaced by a decoding error
    di = repo.method("LocalDataset", "_dump_info")
    opens = [c for c in ast.walk(di.node) if isinstance(c, ast.Call) and call_name(c) in ("open", "read_text")]
    strict = []
    for c in opens:
        er = kwarg(c, "errors")
        mode = arg(c, 0 if isinstance(c.func, ast.Attribute) else 1, "mode")
        binary = mode is not None and "b" in (const_str(mode) or "")
        if not binary and (er is None or const_str(er) in (None, "strict")):
            pmd = parent_map(di.node)
            protected = any(isinstance(t, ast.Try) and any(h.type is None or "Exception" in src(h.type) or "Unicode" in src(h.type) for h in t.handlers)
                            for t in enclosing(di.node, c, (ast.Try,), pmd))
            if not protected:
                strict.append(f"{src(c)[:40]} (line {c.lineno})")
    col.add("C17.R4", di.short, "log-dump-cannot-fail-on-a-binary-file", bool(opens) and not strict,
            f"_dump_info reads every non-.root file of the run directory as strict text: {strict}; a core file or any binary by-product raises "
            "UnicodeDecodeError - on success no result is returned, on failure the DockerException is replaced", di.loc)
    col.add("C17.R4", ex.short, "has-except-around-docker.run", bool(handlers), "error logging handler expected around docker.run", ex.loc)
    # no return inside try/except/finally; the only return comes after and goes through _extract_result_TTree
    tries = [t for t in ast.walk(fn) if isinstance(t, ast.Try)]
    ret_in_try = any(isinstance(r, ast.Return) for t in tries for r in ast.walk(t))
    rets = [r for r in walk_no_nested(fn) if isinstance(r, ast.Return)]
    rok = len(rets) == 1 and not ret_in_try
    ext = None
    if rok:
        calls = [c for c in ast.walk(rets[0]) if isinstance(c, ast.Call) and call_name(c) == "_extract_result_TTree"]
        rok = len(calls) == 1 and tries and ordk(rets[0]) > max(ordk_end(t) for t in tries)
        ext = calls[0] if calls else None
    col.add("C17.R4", ex.short, "single-return-after-the-run", rok,
            "the only return must come after the try around docker.run and read the result through _extract_result_TTree", ex.loc)
    if ext is not None:
        a = [src(_resolve(fn, x)) for x in ext.args]
        ok = len(a) == 3 and a[0] == "f_spec.result_rep" and run_dir_var and run_dir_var in a[1] and a[2] == "self._output_directory"
        col.add("C17.R4", ex.short, "extract-arguments", ok, f"_extract_result_TTree({', '.join(a)}) must be (result rep, run dir, requested output directory)", ex.loc)
    # finally clauses must not swallow: no return/break in finally
    bad_finally = any(isinstance(x, (ast.Return, ast.Break, ast.Continue)) for t in tries for s in t.finalbody for x in ast.walk(s))
    col.add("C17.R4", ex.short, "finally-does-not-swallow", not bad_finally, "return/break in a finally clause discards the exception", ex.loc)
    # the streaming loop consumes the generator inside the try (a failure at any chunk is inside the handler)
    ok = False
    for t in tries:
        for n in t.body:
            for f_ in ast.walk(n):
                if isinstance(f_, ast.For) and isinstance(f_.iter, ast.Name):
                    d = [s for s in t.body if isinstance(s, ast.Assign) and src(s.targets[0]) == f_.iter.id
                         and isinstance(s.value, ast.Call) and src(s.value.func) == "docker.run"]
                    ok = ok or bool(d)
                    if d:
                        # ... to its end: the container's failure is raised by the generator when it is exhausted, so a loop that stops
                        # early (break / return) never sees it
                        early = [type(x).__name__ for x in ast.walk(f_) if isinstance(x, (ast.Break, ast.Return))]
                        col.add("C17.R4", ex.short, "stream-consumed-to-its-end", not early,
                                f"the loop over docker.run's output must not leave early ({early}): python_on_whales raises the DockerException "
                                "after the last chunk", f"{ex.module.rel}:{f_.lineno}")
    col.add("C17.R4", ex.short, "stream-consumed-inside-try", ok,
            "docker.run(stream=True) is lazy: its output must be iterated inside the same try so a failure at any chunk propagates", ex.loc)
    # _extract_result_TTree: copy run_dir/filename -> output_dir/filename, return new path
    er = repo.function("_extract_result_TTree")
    p = [a.arg for a in er.node.args.args]
    env = {}
    for n in walk_no_nested(er.node):
        if isinstance(n, ast.Assign) and isinstance(n.targets[0], ast.Name):
            env[n.targets[0].id] = src(n.value)
    cp = [c for c in ast.walk(er.node) if isinstance(c, ast.Call) and call_name(c) in ("copy", "copy2", "copyfile", "move")]
    rets = [r for r in walk_no_nested(er.node) if isinstance(r, ast.Return)]
    ok = len(cp) == 1 and len(rets) == 1 and len(p) == 3
    if ok:
        s0 = env.get(src(cp[0].args[0]), src(cp[0].args[0]))
        s1 = env.get(src(cp[0].args[1]), src(cp[0].args[1]))
        ok = s0 == f"{p[1]} / {p[0]}.filename" and s1 == f"{p[2]} / {p[0]}.filename" and \
            env.get(src(rets[0].value), src(rets[0].value)) == s1 and call_name(cp[0]) != "move"
    col.add("C17.R4", "_extract_result_TTree", "copies-run_dir/filename-to-output_dir/filename", ok,
            "must copy <run dir>/<rep.filename> to <output dir>/<rep.filename> and return the new path", er.loc)


def check_cross(col: Collector, repo: Repo, ex):
    col.floor("C17.R6", 8)
    from sa.props._tr import check_cfg_filelist, check_copy_template, import_obligations
    check_cfg_filelist(col, "C17.R6")
    # the package mounted at /scripts is this backend's own rendering, and a job that fails makes the container fail
    check_copy_template(col, "C17.R6", repo, details=("package-files-rendered-from-this-backend's-templates", "package-files-replaced-not-overlaid"))
    import_obligations(col, "C17.R6", "c16", lambda o: o.rule == "C16.R2" and o.detail.startswith("step-context:") and ("cmsRun" in o.detail or "ATestRun_eljob" in o.detail),
                       "a masked job failure makes the container exit 0: no DockerException, and a truncated or stale result is returned")
    # per-backend dataset classes
    ld = repo.find_class("LocalDataset")
    subs = repo.subclasses(ld)
    want = {"xAODDataset": ("atlas_xaod_executor", "atlas/r21"), "CMSRun1AODDataset": ("cms_aod_executor", "cms/r5"),
            "CMSRun2miniAODDataset": ("cms_miniaod_executor", "cms/r7")}
    if len(subs) < 3:
        raise AnalysisError(f"expected three LocalDataset subclasses, found {[s.name for s in subs]}")
    for s in subs:
        g = s.methods.get("get_executor_obj")
        rets = [r for r in walk_no_nested(g.node) if isinstance(r, ast.Return)] if g else []
        exp = want.get(s.name, (None, None))[0]
        ok = len(rets) == 1 and isinstance(rets[0].value, ast.Call) and call_name(rets[0].value) == exp and not rets[0].value.args
        col.add("C17.R6", f"{s.name}.get_executor_obj", "returns-new-own-backend-executor", ok,
                f"must return a newly constructed {exp}() (found {src(rets[0].value) if rets else None})", g.loc if g else s.module.rel)
        dv = s.methods.get("docker_cache_volume")
        col.add("C17.R6", f"{s.name}.docker_cache_volume", "defined", dv is not None, "abstract method must be implemented", s.module.rel)
        # super().__init__(files, docker_image, docker_tag, output_directory) in order
        ini = s.methods.get("__init__")
        sup = [c for c in ast.walk(ini.node) if isinstance(c, ast.Call) and src(c.func) == "super().__init__"] if ini else []
        ok = len(sup) == 1 and [src(a) for a in sup[0].args] == ["files", "docker_image", "docker_tag", "output_directory"]
        col.add("C17.R6", f"{s.name}.__init__", "forwards-arguments-in-order", ok,
                "super().__init__(files, docker_image, docker_tag, output_directory)", ini.loc if ini else s.module.rel)
    # runner scripts: default output dir /results, $DIR/filelist.txt, ATLAS calib cache mount
    for s in subs:
        tdir = want.get(s.name, (None, None))[1]
        if not tdir:
            continue
        rp = REPO / "func_adl_xAOD/template" / tdir / "runner.sh"
        if not rp.exists():
            raise AnalysisError(f"{rp} missing")
        from sa.core.shell_alpha import runner_source
        txt = runner_source(rp)
        m = re.search(r'^output_dir="([^"]*)"', txt, re.M)
        col.add("C17.R6", f"runner:{tdir}", "default-output-dir-is-/results", bool(m) and m.group(1) == "/results",
                f"runner default output_dir is {m.group(1) if m else None}; the package directory is mounted rw at /results", str(rp.relative_to(REPO)))
        col.add("C17.R6", f"runner:{tdir}", "reads-$DIR/filelist.txt", "$DIR/filelist.txt" in txt,
                "runner must read the file list from the script directory (mounted at /scripts)", str(rp.relative_to(REPO)))
        dv = s.methods.get("docker_cache_volume")
        if dv is not None:
            mps = [const_str(kwarg(c, "mount_point") or (c.args[1] if len(c.args) > 1 else None)) for c in ast.walk(dv.node)
                   if isinstance(c, ast.Call) and call_name(c) == "docker_volume_info"]
            for mp in mps:
                m2 = re.search(r'^calib_cache="([^"]*)"', txt, re.M)
                col.add("C17.R6", f"runner:{tdir}", f"cache-mount-point:{mp}", bool(m2) and m2.group(1) == mp,
                        f"cache volume mounted at {mp}; runner's calib_cache is {m2.group(1) if m2 else None}", str(rp.relative_to(REPO)))
    # result file name agreement: cpp_ttree_rep("ANALYSIS.root", ...) is what _extract copies - checked in C03.R6
