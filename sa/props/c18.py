"""C18 - constants denote the same value in the generated code.

Decided: every place where Python text becomes part of a C++ string literal goes
through the escaper; the escaper covers backslash, quote and control characters;
the numeric paths reject non-finite values, parenthesise negatives, type bools
exactly; unknown constant kinds raise; argument substitution inserts text
literally; constants are never memoised.  Not decided: C++ parsing of every
float repr (trusted: Python's repr of a finite float is a valid C++ literal).
"""
from __future__ import annotations

import ast
import re as _re

from sa.core.common import AnalysisError, Collector
from sa.core.paths import enumerate_paths, guards, parent_map
from sa.core.pyfacts import Repo, arg, call_name, const_str, kwarg, src, walk_no_nested, ordk, ordk_end
from sa.core.templates import holes_inside_string_literals, parts, shape
from sa.props._tr import defs_of, resolve_name, visitor_methods

EXPLANATION = (
    "Template (literal parts + holes) analysis of every Python string expression that reaches a C++ sink (add_line, "
    "arbitrary_statement, the expression of cpp_value/cpp_variable/cpp_collection, code lines of built-in specifications): "
    "R1 no plain hole sits between C++ double quotes - text reaches a string literal only through cpp_string_literal, "
    "whose escape table covers backslash, quote, newline and other control characters and which returns a quoted string; "
    "the str branch of visit_Constant/visit_Str is exactly that escaper applied to the value; R2 the float path rejects "
    "non-finite values before rendering; R3 the int path is guarded by a width test or selects a wider type; R4 bool renders "
    "true/false, dispatch is by exact type, every other kind raises; R5 injected-code arguments are inserted by a function "
    "replacement over one alternation regex with word boundaries around a group (regex AST of a sample pattern); R6 negative "
    "numbers are parenthesised; R8 every collection call builds its own code value (its own bank literal); R7 constant rendering is not memoised (no lru_cache/cache, no rep-cache lookups in visit_Constant)."
)
ASSUMPTIONS = [
    "Python's str() of a finite float / of an int is a valid C++ literal of the same value",
    "C++ string-literal escape sequences \\\\ \\\" \\n \\r \\t \\ooo have their standard meaning",
]

SINK_CALLS = {"add_line": 0, "arbitrary_statement": 0, "cpp_value": 0, "cpp_variable": 0, "cpp_collection": 0}


def string_sinks(repo: Repo):
    """(func, call, arg expr) for every sink call in the package."""
    out = []
    for f in repo.all_functions():
        for c in walk_no_nested(f.node):
            if isinstance(c, ast.Call) and call_name(c) in SINK_CALLS and c.args:
                out.append((f, c, c.args[SINK_CALLS[call_name(c)]]))
    return out


def check(col: Collector, tier: str):
    repo = Repo()
    m = visitor_methods(repo)
    sinks = string_sinks(repo)
    col.info["string_sinks"] = len(sinks)
    if len(sinks) < 40:
        raise AnalysisError(f"only {len(sinks)} C++ text sinks found; expected more than 40")
    # ------------------------------------------------------------ R1 holes inside quotes
    col.floor("C18.R1", 8)
    n_quoted = 0
    for f, c, a in sinks:
        ps = parts(f.node, a)
        has_quote = any(k == "lit" and '"' in v for k, v in ps)
        has_strlit = any(k == "strlit" for k, v in ps)
        if not has_quote and not has_strlit:
            continue
        n_quoted += 1
        bad = holes_inside_string_literals(ps)
        col.add("C18.R1", f.short, f"quoted-template:{call_name(c)}:{''.join(shape(ps))[:40]}", not bad,
                f"template {''.join(shape(ps))[:90]!r}: " + (f"hole(s) {[src(b) for b in bad]} are pasted between C++ double quotes without "
                "cpp_string_literal: a quote or backslash in the text ends or corrupts the literal" if bad else "text reaches quotes only through the escaper"),
                f"{f.module.rel}:{c.lineno}")
    col.info["templates_with_cpp_quotes"] = n_quoted
    # code lines of specifications (lists of str / f-strings) in the event collection coders and built-in specs
    for f in repo.all_functions():
        if f.name in ("get_running_code", "_running_code_for_token", "get_running_code_CPPCodeValue", "get_jet_methods", "isNonnullAst"):
            for n in walk_no_nested(f.node):
                if isinstance(n, (ast.JoinedStr,)):
                    ps = parts(f.node, n)
                    bad = holes_inside_string_literals(ps)
                    if any(k == "lit" and '"' in v for k, v in ps):
                        col.add("C18.R1", f.short, f"quoted-code-line:{''.join(shape(ps))[:40]}", not bad,
                                f"code line {''.join(shape(ps))[:80]!r} pastes {[src(b) for b in bad]} between quotes", f"{f.module.rel}:{n.lineno}")
    # the escaper
    esc = repo.function("cpp_string_literal")
    # the table the characters are looked up in (`<c> in T` / `T[<c>]` / `T.get(<c>`): a literal dict bound in the function or a
    # module-level literal dict
    table = None
    from sa.core.finite_eval import literal_tables
    mod_tables = literal_tables(esc.module.tree)
    for n in walk_no_nested(esc.node):
        if isinstance(n, ast.Assign) and isinstance(n.value, ast.Dict):
            try:
                table = {ast.literal_eval(k): ast.literal_eval(v) for k, v in zip(n.value.keys, n.value.values)}
            except Exception:
                table = None
    if table is None:
        # ... or written out where it is used (every occurrence the same literal)
        lits = {ast.dump(d): d for d in ast.walk(esc.node) if isinstance(d, ast.Dict) and d.keys}
        if len(lits) == 1:
            d = next(iter(lits.values()))
            try:
                table = {ast.literal_eval(k): ast.literal_eval(v) for k, v in zip(d.keys, d.values)}
            except Exception:
                table = None
    if table is None:
        used = {x.id for x in ast.walk(esc.node) if isinstance(x, ast.Name) and isinstance(mod_tables.get(x.id), dict)}
        if len(used) == 1:
            table = mod_tables[used.pop()]
    want = {"\\": "\\\\", '"': '\\"', "\n": "\\n"}
    ok = table is not None and all(table.get(k) == v for k, v in want.items())
    col.add("C18.R1", esc.short, "escape-table-covers-backslash-quote-newline", ok,
            f"escape table is {table}; it must map backslash, double quote and newline to \\\\\\\\, \\\\\" and \\\\n", esc.loc)
    ctl = any(isinstance(n, ast.Compare) and "0x20" in src(n).lower() or (isinstance(n, ast.Compare) and " 32" in src(n)) for n in ast.walk(esc.node))
    col.add("C18.R1", esc.short, "other-control-characters-escaped", ctl,
            "characters below 0x20 must be rendered as an escape sequence (a raw control character is not allowed inside a C++ string literal)", esc.loc)
    from sa.props._tr import check_escaper_ranges
    check_escaper_ranges(col, "C18.R1", repo)
    fmt = [j for j in ast.walk(esc.node) if isinstance(j, ast.JoinedStr) and any(isinstance(v, ast.FormattedValue) and v.format_spec is not None for v in j.values)]
    ok_oct = False
    for j in fmt:
        lit = "".join(v.value for v in j.values if isinstance(v, ast.Constant))
        specs = [src(v.format_spec).strip("f'\"") for v in j.values if isinstance(v, ast.FormattedValue) and v.format_spec is not None]
        ok_oct = lit == "\\" and specs == ["03o"]
    col.add("C18.R1", esc.short, "control-characters-as-three-digit-octal", ok_oct and len(fmt) == 1,
            "the generic escape must be a backslash followed by exactly three octal digits: a hex escape (\\xNN) has no length limit in C++ and "
            "swallows any hex digit characters that follow it", esc.loc)
    rets = [r for r in walk_no_nested(esc.node) if isinstance(r, ast.Return)]
    ok = len(rets) == 1
    if ok:
        ps = parts(esc.node, rets[0].value)
        sh = shape(ps)
        ok = len(sh) == 3 and sh[0] == '"' and sh[2] == '"'
    col.add("C18.R1", esc.short, "returns-quoted-text", ok, "the escaper must return the escaped text between double quotes", esc.loc)
    # every character of the input is visited: a single loop over the parameter, appending for every branch
    loops = [n for n in walk_no_nested(esc.node) if isinstance(n, ast.For)]
    p0 = esc.node.args.args[0].arg
    comps = [g for n in ast.walk(esc.node) if isinstance(n, (ast.ListComp, ast.GeneratorExp)) for g in n.generators if src(g.iter) == p0]
    if not loops and len(comps) == 1:
        # one comprehension over the text: every character yields exactly one element unless the comprehension filters
        ok = not comps[0].ifs
    else:
        ok = len(loops) == 1 and src(loops[0].iter) == p0
        if ok:
            fake = ast.FunctionDef(name="_", args=esc.node.args, body=loops[0].body, decorator_list=[], lineno=loops[0].lineno)
            ok = all(any(e.kind == "call" and call_name(e.node) == "append" for e in p.events) for p in enumerate_paths(fake))
    col.add("C18.R1", esc.short, "every-character-emitted", ok, "each input character must be appended (escaped or as is) on every branch", esc.loc)

    # ------------------------------------------------------------ visit_Constant / visit_Str / visit_Num
    vc = m.get("visit_Constant")
    if vc is None:
        raise AnalysisError("visit_Constant not found")
    fn = vc.node
    pm = parent_map(fn)
    branches = {}
    for c in walk_no_nested(fn):
        if isinstance(c, ast.Call) and call_name(c) == "cpp_value":
            gs = [(src(t), tr) for t, tr in guards(fn, c, pm)]
            true_g = [t for t, tr in gs if tr]
            kind = None
            for t in true_g:
                mm = _re.match(r"type\(([\w.]+)\) is (\w+)$", t)
                if mm:
                    kind = mm.group(2)
            branches[kind] = c
    # whatever the structure: every value built for a constant is typed by a literal type name, never by a function of the value
    fams = [vc]
    for c in walk_no_nested(fn):
        if isinstance(c, ast.Call) and isinstance(c.func, ast.Attribute) and isinstance(c.func.value, ast.Name) and c.func.value.id == "self":
            for g in repo.resolve_call(vc, c):
                if g.cls is not None and g.name not in ("get_rep", "visit") and g not in fams:
                    fams.append(g)
    n_vals = 0
    for g in fams:
        for c in walk_no_nested(g.node):
            if isinstance(c, ast.Call) and call_name(c) == "cpp_value":
                t = c.args[2] if len(c.args) > 2 else kwarg(c, "cpp_type")
                n_vals += 1
                lit = isinstance(t, ast.Call) and call_name(t) == "terminal" and t.args and isinstance(t.args[0], ast.Constant)
                via_name = isinstance(t, ast.Call) and call_name(t) == "terminal" and t.args and isinstance(t.args[0], ast.Name)
                col.add("C18.R4", g.short, f"typed-by-kind-not-by-value:{src(t)[:30]}", bool(lit) or bool(via_name),
                        f"a constant's C++ type is computed as `{src(t)}`: it must be the literal type of its Python kind (int -> int, float -> "
                        "double); typing by value (int(n) == n) turns 2.0 into an int and narrows what it is mixed with", f"{g.module.rel}:{c.lineno}")
    col.floor("C18.R4", 4)
    uses_isinstance = any(isinstance(c, ast.Call) and call_name(c) == "isinstance" and "value" in src(c.args[0]) for c in walk_no_nested(fn))
    if set(branches) != {"str", "int", "float", "bool"} and not uses_isinstance:
        col.defer("visit_Constant is not a chain of `type(value) is T` branches that each build a cpp_value (unrecognised refactoring): "
                  "the per-kind constant rules C18.R1/R2/R3/R4/R6 cannot be decided on this shape")
        branches = {}
    else:
        col.add("C18.R4", vc.short, "dispatch-by-exact-type", set(branches) == {"str", "int", "float", "bool"},
                f"constant kinds dispatched by `type(value) is T`: {sorted(str(k) for k in branches)} (isinstance would treat True as an int)", vc.loc)
    # R1 str branch
    if "str" in branches:
        ps = parts(fn, branches["str"].args[0])
        vname = [src(v) for k, v in ps if k == "strlit"]
        ok = len(ps) == 1 and ps[0][0] == "strlit" and src(resolve_name(fn, ps[0][1])) in ("node.value", "value")
        col.add("C18.R1", vc.short, "string-constant-is-the-escaped-value", ok,
                f"a str constant must render as cpp_string_literal(value) and nothing else (template {shape(ps)})", vc.loc)
        ty = src(branches["str"].args[2] if len(branches["str"].args) > 2 else kwarg(branches["str"], "cpp_type")).replace('"', "'")
        col.add("C18.R4", vc.short, "string-typed-string", "terminal('string')" in ty, f"type {ty}", vc.loc)
    vs = m.get("visit_Str")
    if vs is not None:
        cs = [c for c in walk_no_nested(vs.node) if isinstance(c, ast.Call) and call_name(c) == "cpp_value"]
        ok = len(cs) == 1 and [k for k, v in parts(vs.node, cs[0].args[0])] == ["strlit"]
        col.add("C18.R1", vs.short, "legacy-string-node-escaped", ok, "visit_Str must stay in sync with visit_Constant (escaped value)", vs.loc)
    # R2/R6 numeric rendering helper
    col.floor("C18.R2", 1)
    for kind in ("int", "float"):
        c = branches.get(kind)
        if c is None:
            continue
        a0 = c.args[0]
        helper = a0 if isinstance(a0, ast.Call) else None
        via = call_name(helper) if helper is not None else None
        hf = repo.functions_named(via)[0] if via and repo.functions_named(via) else None
        ok_arg = helper is not None and helper.args and src(resolve_name(fn, helper.args[0])) in ("node.value", "value")
        if kind == "float":
            fin = hf is not None and _rejects_nonfinite(hf.node)
            col.add("C18.R2", vc.short, "non-finite-float-rejected", bool(fin) and ok_arg,
                    f"float constants are rendered by {via}: inf/nan must raise before rendering (they print as identifiers)", vc.loc)
        if hf is not None:
            exact, why_exact = _renders_exactly(hf.node)
            col.add("C18.R2", hf.short, f"{kind}-rendered-by-its-shortest-round-trip-text", exact,
                    f"{kind} constants are rendered by {via}: the text must be str()/repr() of the constant itself (the shortest text that reads back as the "
                    f"same number); {why_exact}", hf.loc)
        neg = hf is not None and _parenthesises_negatives(hf.node)
        col.add("C18.R6", vc.short, f"negative-{kind}-parenthesised", bool(neg) and ok_arg,
                f"{kind} constants are rendered by {via}: a negative value must be parenthesised (x - -2 would print x--2)", vc.loc)
        ty = src(c.args[2] if len(c.args) > 2 else kwarg(c, "cpp_type")).replace('"', "'")
        want_t = "terminal('int')" if kind == "int" else "terminal('double')"
        col.add("C18.R4", vc.short, f"{kind}-typed-{'int' if kind == 'int' else 'double'}", want_t in ty, f"type {ty}", vc.loc)
    col.floor("C18.R6", 2)
    # R3 integer width
    c = branches.get("int")
    if c is not None:
        gs = [src(t) for t, tr in guards(fn, c, pm)]
        hf = repo.functions_named(call_name(c.args[0]))[0] if isinstance(c.args[0], ast.Call) and repo.functions_named(call_name(c.args[0])) else None
        width = any(_re.search(r"2\s*\*\*\s*31|2147483647|0x7fffffff|bit_length", g, _re.I) for g in gs) or \
            (hf is not None and _re.search(r"2\s*\*\*\s*31|2147483647|0x7fffffff|bit_length", src(hf.node), _re.I) is not None)
        col.add("C18.R3", vc.short, "int-width-guard", bool(width),
                "an int constant is typed C++ `int` (32 bit) whatever its magnitude: there is no range test and no wider type, so a value "
                "such as 10000000000 is declared/accumulated as int and truncated", vc.loc)
    # R4 bool + else raises
    b = branches.get("bool")
    if b is not None:
        from sa.props._tr import conditional_defs
        arms = [(const_str(v_), gs_) for v_, gs_ in conditional_defs(fn, b.args[0])]
        vt = {t_ for _, gs_ in arms for t_, _tr in gs_ if t_ in ("value", "node.value")}
        ok = len(arms) == 2 and len(vt) == 1 and sorted((a_, (next(iter(vt)), True) in gs_) for a_, gs_ in arms) == [("false", False), ("true", True)] \
            and all((next(iter(vt)), a_ == "true") in gs_ for a_, gs_ in arms)
        col.add("C18.R4", vc.short, "bool-renders-true/false", ok, f"bool constant renders {[(a_, sorted(gs_)) for a_, gs_ in arms]}", vc.loc)
    paths = enumerate_paths(fn)
    unhandled = [p for p in paths if p.status != "raise" and not any(e.kind == "call" and call_name(e.node) == "set_rep" for e in p.events)]
    if branches:
        col.add("C18.R4", vc.short, "other-kinds-raise", not unhandled and any(p.status == "raise" for p in paths),
                "a constant of any other kind (None, bytes, complex, ...) must raise; no path may return without publishing a representation", vc.loc)

    # ------------------------------------------------------------ R5 verbatim transport
    check_substitution(col, repo, "C18.R5")

    # ------------------------------------------------------------ R8 the bank literal of each call reaches its own retrieval
    from sa.props.c06 import check_fresh_code_value
    col.floor("C18.R8", 4)
    check_fresh_code_value(col, "C18.R8", repo)

    from sa.props._tr import import_obligations
    import_obligations(col, "C18.R9", "c03", lambda o: o.detail in ("entry=(name, variable typed by get_ttree_type(value))", "branch-binds-name-k-to-variable-k"),
                       "the column name given by the query must reach Branch() character for character; only the C++ variable name is sanitised")
    # ------------------------------------------------------------ R11 constants as operands / as bank names are not re-written
    from sa.props._tr import check_compare_operands_verbatim
    check_compare_operands_verbatim(col, "C18.R11", m)
    gcf = repo.method("event_collection_coder", "get_collection")
    cprm = gcf.node.args.args[2].arg if len(gcf.node.args.args) > 2 else "call_node"
    rewrites = [src(n)[:60] for n in walk_no_nested(gcf.node)
                if (isinstance(n, (ast.Assign, ast.AugAssign)) and any(src(t).startswith(f"{cprm}.args") for t in (n.targets if isinstance(n, ast.Assign) else [n.target])))
                or (isinstance(n, ast.Call) and src(n.func) in ("ast.Constant", "ast.Str", "ast.Call"))
                or (isinstance(n, ast.Call) and isinstance(n.func, ast.Attribute) and n.func.attr in ("append", "insert", "extend", "pop") and src(n.func.value) == f"{cprm}.args")]
    col.add("C18.R11", gcf.short, "bank-name-argument-left-as-the-query-wrote-it", not rewrites,
            f"the collection call keeps the query's own argument node (the string constant is substituted later from it); get_collection builds or "
            f"replaces arguments: {rewrites} - an empty or unusual name is then replaced by something else", gcf.loc)
    # ------------------------------------------------------------ R10 the bytes on disk: strict UTF-8 (agreement with the escaper's pass-through)
    from sa.props._tr import check_copy_template
    col.floor("C18.R10", 1)
    sub = Collector("C18")
    check_copy_template(sub, "C18.R10", repo, details=("render", "truncate", "generated-files-written-as-strict-utf-8"))
    for o in sub.obs:
        if o.detail == "generated-files-written-as-strict-utf-8":
            col.add("C18.R10", o.construct, o.detail, o.ok, o.msg, o.loc)
    # ------------------------------------------------------------ R7 no memoisation
    col.floor("C18.R7", 2)
    tr = repo.mod("common.ast_to_cpp_translator")
    memo = []
    for f in tr.all_funcs:
        for d in f.node.decorator_list:
            if _re.search(r"\b(lru_cache|cache|cached_property|memoize)\b", src(d)):
                memo.append(f"{f.short}@{src(d)}")
    col.add("C18.R7", "ast_to_cpp_translator", "no-memoised-rendering", not memo,
            f"memoised functions {memo}: cache keys compare with == so 1, 1.0 and True share an entry and the first one decides text and type", tr.rel)
    lookups = [src(c) for c in walk_no_nested(fn) if isinstance(c, ast.Call) and isinstance(c.func, ast.Attribute)
               and call_name(c) in ("get_rep", "set_rep") and src(c.func.value).endswith("_gc")]
    extra_calls = [call_name(c) for c in walk_no_nested(fn) if isinstance(c, ast.Call) and isinstance(c.func, ast.Attribute)
                   and isinstance(c.func.value, ast.Name) and c.func.value.id == "self" and call_name(c) not in ()]
    col.add("C18.R7", vc.short, "fresh-representation-per-constant", not lookups,
            f"visit_Constant must build a new cpp_value for every constant node; block-level cache lookups found: {lookups}", vc.loc)


def _rejects_nonfinite(fn) -> bool:
    pm = parent_map(fn)
    for r in walk_no_nested(fn):
        if isinstance(r, ast.Raise):
            gs = guards(fn, r, pm)
            for t, tr in gs:
                s = src(t)
                # the closed guard set carries the atoms in positive form: `isfinite(n)` known false, or `isinf(n)` / `isnan(n)` known true
                atom = isinstance(t, ast.Call) and call_name(t) in ("isfinite", "isinf", "isnan")
                if (atom and ((call_name(t) == "isfinite" and not tr) or (call_name(t) in ("isinf", "isnan") and tr))) or (
                        not atom and tr and ("isfinite" in s and s.count("not") % 2 == 1 or "isinf" in s or "isnan" in s) and "not math.isinf" not in s):
                    # must come before any return
                    rets = [x for x in walk_no_nested(fn) if isinstance(x, ast.Return)]
                    return all(ordk(x) > ordk(r) for x in rets)
    return False


def _renders_exactly(fn):
    """number helper: the parameter is never re-bound, and what is returned is str(p)/repr(p)/f"{p}" (no format spec, no rounding)"""
    p0 = fn.args.args[0].arg
    rebound = [src(n)[:60] for n in walk_no_nested(fn) if isinstance(n, (ast.Assign, ast.AugAssign, ast.AnnAssign))
               and any(isinstance(t, ast.Name) and t.id == p0 for t in (n.targets if isinstance(n, ast.Assign) else [n.target]))]
    if rebound:
        return False, f"the parameter is re-bound before rendering: {rebound}"
    rets = [r for r in walk_no_nested(fn) if isinstance(r, ast.Return) and r.value is not None]
    if not rets:
        return False, "no return"
    for r in rets:
        for n in ast.walk(r.value):
            if isinstance(n, ast.FormattedValue):
                if src(n.value) != p0 or n.format_spec is not None or n.conversion not in (-1, 114, 115):
                    return False, f"formatted as {src(n)}"
            if isinstance(n, ast.Call) and call_name(n) in ("format", "round", "float", "int", "Decimal", "trunc", "floor", "ceil") :
                return False, f"value passes through {src(n)[:40]}"
            if isinstance(n, ast.BinOp) and isinstance(n.op, ast.Mod) and isinstance(n.left, ast.Constant) and isinstance(n.left.value, str):
                return False, f"printf-style formatting {src(n)[:40]}"
            if isinstance(n, ast.Name) and n.id != p0 and not isinstance(n.ctx, ast.Store) and n.id not in ("str", "repr"):
                d = [x for x in walk_no_nested(fn) if isinstance(x, ast.Assign) and any(isinstance(t, ast.Name) and t.id == n.id for t in x.targets)]
                if d:
                    return False, f"rendered from the local {n.id} = {src(d[0].value)[:40]}, not from the constant"
    return True, "ok"


def _parenthesises_negatives(fn) -> bool:
    """every value returned for a negative number (under `n < 0`, however the test is spelled) is ( ... )"""
    from sa.core.paths import outcomes
    p0 = fn.args.args[0].arg
    neg = [o for o in outcomes(fn) if o.kind == "return" and (f"{p0} < 0", True) in o.cguards]
    if not neg:
        return False
    for o in neg:
        sh = shape(parts(fn, o.value))
        if not (len(sh) == 3 and sh[0] == "(" and sh[2] == ")"):
            return False
    return True


def check_substitution(col: Collector, repo: Repo, rule: str):
    """process_ast_node's argument substitution: one pass, whole words around a group, function replacement."""
    col.floor(rule, 3)
    pan = repo.function("process_ast_node")
    ca = repo.mod("common.cpp_ast")
    subs = [(f, c) for f in ca.all_funcs for c in walk_no_nested(f.node)
            if isinstance(c, ast.Call) and call_name(c) in ("sub", "subn") and "re" in src(c.func)]
    col.add(rule, "cpp_ast", "single-substitution-site", len(subs) == 1,
            f"{len(subs)} re.sub call sites in cpp_ast.py; all substitution must go through one helper", ca.rel)
    for f, c in subs:
        repl = arg(c, 1, "repl")
        literal = isinstance(repl, ast.Lambda) or (isinstance(repl, ast.Name) and any(g.name == repl.id for g in ca.all_funcs))
        col.add(rule, f.short, "replacement-is-a-function", literal,
                f"the replacement argument is `{src(repl)}`: a string replacement is a regex template in which backslashes of the actual "
                "argument (e.g. in a string constant) are interpreted", f"{ca.rel}:{c.lineno}")
        # not applied in a loop feeding its own output (sequential substitution)
        pm = parent_map(f.node)
        from sa.core.paths import enclosing
        loops = enclosing(f.node, c, (ast.For, ast.While), pm)
        seq = False
        for lp in loops:
            tgt = [src(t) for n in ast.walk(lp) if isinstance(n, ast.Assign) and n.value is c for t in n.targets]
            if tgt and src(arg(c, 2, "string")) in tgt:
                seq = True
        col.add(rule, f.short, "simultaneous-not-sequential", not seq,
                "re.sub is applied in a loop to its own output: text substituted for one parameter is searched again for the next one", f"{ca.rel}:{c.lineno}")
        # pattern shape through the regex AST of a sample
        pat = arg(c, 0, "pattern")
        ps = parts(f.node, pat)
        sample = ""
        for k, v in ps:
            if k == "lit":
                sample += v
            else:
                s = src(v)
                sample += "AAA|BBB" if "join" in s else "AAA"
        ok = False
        why = f"sample pattern {sample!r}"
        try:
            import re._parser as sre_parse
        except ImportError:  # pragma: no cover
            import sre_parse
        try:
            tree = sre_parse.parse(sample)
            items = list(tree)
            kinds = [str(op) for op, av in items]
            ok = len(items) >= 3 and str(items[0][0]) == "AT" and "BOUNDARY" in str(items[0][1]) and str(items[-1][0]) == "AT" \
                and "BOUNDARY" in str(items[-1][1]) and "BRANCH" not in kinds[0:1] + kinds[-1:]
            # no top-level BRANCH: an ungrouped alternation makes the whole pattern a BRANCH node
            ok = ok and not (len(items) == 1 and str(items[0][0]) == "BRANCH")
            why += f" parses to top-level {kinds}"
        except Exception as e:
            why += f" does not parse: {e}"
        esc = any("re.escape" in src(v) for k, v in ps if k != "lit")
        col.add(rule, f.short, "whole-word-pattern-around-escaped-names", ok and esc,
                "the pattern must be \\b(?:<escaped names joined by |>)\\b - word boundaries applying to every alternative and names passed "
                "through re.escape; " + why, f"{ca.rel}:{c.lineno}")
    # both consumers (running code and field initialisers) use the helper
    helper_names = {f.name for f, _ in subs}
    uses = [c for c in walk_no_nested(pan.node) if isinstance(c, ast.Call) and call_name(c) in helper_names]
    col.add(rule, pan.short, "code-lines-and-field-initialisers-substituted", len(uses) >= 2 or (pan.name in helper_names),
            f"{len(uses)} uses of the substitution helper in process_ast_node (running code and fields expected)", pan.loc)
    # the substituted line is emitted as it is: arbitrary_statement.emit may only append the missing ';'
    from sa.props._tr import string_surgery
    em = repo.method("arbitrary_statement", "emit")
    cuts = [c for c in string_surgery(em.node) if not re_fullmatch_strip(c)]
    adds = [c for c in walk_no_nested(em.node) if isinstance(c, ast.Call) and call_name(c) == "add_line"]
    # ... and the `;` is added exactly when the line does not already end in one (a line ending in `}` is still a statement when it is a
    # brace initialiser or a lambda)
    # decided per path on what add_line finally receives (locals substituted): the stored line itself where it already ends in `;`,
    # the stored line + ";" where it does not - however the two cases are spelled (a local that is extended, an if/else of two calls ...)
    from sa.core.paths import substituted_paths
    sg = []
    ok_semi = True
    one_each = True
    for items in substituted_paths(em.node):
        calls = [c for k, c, *_ in items if k == "call" and call_name(c) == "add_line"]
        conds = {(src(t).replace('"', "'"), tr_) for k, t, *r in items if k == "cond" for tr_ in r}
        if len(calls) != 1:
            one_each = False
            continue
        a = src(calls[0].args[0]).replace('"', "'") if calls[0].args else "?"
        sg.append((a, sorted(conds)))
        base = a[:-len(" + ';'")] if a.endswith(" + ';'") else a
        if a.endswith(" + ';'"):
            ok_semi = ok_semi and conds == {(f"{base}.endswith(';')", False)}
        else:
            ok_semi = ok_semi and conds == {(f"{base}.endswith(';')", True)}
        ok_semi = ok_semi and _re.fullmatch(r"self\.\w+", base) is not None
    ok_semi = ok_semi and len(sg) == 2
    col.add(rule, em.short, "terminator-added-exactly-when-missing", ok_semi and one_each,
            f"`;` must be appended exactly when the stored line does not end in one, and nothing else happens to it (per path: {sg})", em.loc)
    # ... and the emitter that receives every generated line stores it whole behind the indentation: one stored entry per call, no cutting
    # or splitting of the text (str.splitlines() also splits at U+0085 / U+2028 / U+2029, which the escaper passes through inside literals)
    se = repo.method("_cpp_source_emitter", "add_line")
    prm = se.node.args.args[1].arg if len(se.node.args.args) > 1 else None
    se_cuts = string_surgery(se.node)
    stores = [n for n in walk_no_nested(se.node) if (isinstance(n, ast.AugAssign) and src(n.target).startswith("self._lines")) or
              (isinstance(n, ast.Call) and call_name(n) in ("append", "extend", "insert") and src(n.func.value).startswith("self._lines"))]
    recursive = [c for c in walk_no_nested(se.node) if isinstance(c, ast.Call) and call_name(c) == "add_line"]
    whole = False
    if len(stores) == 1 and prm:
        val = stores[0].value if isinstance(stores[0], ast.AugAssign) else (stores[0].args[0] if stores[0].args else None)
        elts = val.elts if isinstance(val, (ast.List, ast.Tuple)) else [val]
        if len(elts) == 1 and isinstance(elts[0], ast.JoinedStr) and elts[0].values:
            last = elts[0].values[-1]
            whole = isinstance(last, ast.FormattedValue) and src(last.value) == prm and last.format_spec is None and last.conversion == -1 \
                and not any(isinstance(v, ast.FormattedValue) and prm in src(v.value) for v in elts[0].values[:-1])
        elif len(elts) == 1 and isinstance(elts[0], ast.BinOp) and isinstance(elts[0].op, ast.Add):
            whole = src(elts[0].right) in (prm, f"str({prm})") and prm not in src(elts[0].left)
    pme = parent_map(se.node)
    cond_store = bool(stores) and bool(guards(se.node, stores[0], pme))
    col.add(rule, se.short, "generated-line-stored-whole", whole and not se_cuts and not recursive and not cond_store,
            f"the source emitter must store <indentation> + <the line as given>, once, unconditionally (text surgery: {se_cuts[:2]}, recursive calls: {len(recursive)})", se.loc)
    col.add(rule, em.short, "injected-line-emitted-whole", not cuts and one_each,
            f"the line carries the actual arguments already pasted in (string constants included): cutting or splitting it on C++ syntax such as `//` "
            f"cannot tell code from the inside of a string literal (found {cuts}; add_line calls: {len(adds)})", em.loc)


def re_fullmatch_strip(text: str) -> bool:
    """whitespace trimming at the ends (x.strip() / x.rstrip() / x.lstrip() without argument) rewrites nothing inside the line"""
    return _re.fullmatch(r".*\.(r|l)?strip\(\)", text) is not None
