"""C04 - faults are equivalent; evaluation is as lazy as the query.

Decided: the event order inside the handlers that implement laziness and the
First() protocol (guard emitted before the guarded operand is translated, result
assigned inside it, cursor restored), bounds-checked indexing.  Not decided: that
for a given composition the guard block is the one enclosing the guarded
statements at run time (runtime scope algebra).
"""
from __future__ import annotations

import ast

from sa.core.common import AnalysisError, Collector
from sa.core.pyfacts import Repo, arg, call_name, const_str, kwarg, src, walk_no_nested
from sa.core.paths import guards, parent_map
from sa.core.scope_typestate import ScopeInterp
from sa.props._tr import check_container_elements, cursor_actions, defs_of, resolve_name, strip_cast, visitor_methods

EXPLANATION = (
    "Emission-cursor typestate over every path of visit_BoolOp, visit_IfExp, call_Where and call_First, plus template "
    "checks: R1 every operand of and/or after the first is translated while the if(check) pushed in the same iteration is "
    "the top block, its value is assigned inside it, and the cursor is restored to the token captured before the loop; the "
    "check is the bare result for `and`, its negation for `or`; R2 the conditional translates its test first, the true arm "
    "under the pushed if, the false arm under the else pushed after that if is closed, both arms assign the same result "
    "variable; R3 Where pushes if(filter value) after translating the filter and publishes a sequence whose scope token is "
    "read after the push; R4 First declares its flag (initial true) on the block outside the loop, emits if(flag){flag=false;} "
    "at the sequence-value scope and leaves it open, and attaches if(flag){throw} to the outside block after the loop; R5 "
    "indexing goes through at(); R6 tuple/list/dict elements are translated independently (retain_scope) so one element's guards never enclose the next; R7 the runner's job step is in a plain errexit context so a thrown fault fails the run."
)
ASSUMPTIONS = [
    "the scope tokens place the emitted blocks where the typestate says (runtime scope algebra, see C01)",
    "C++ if/else and std::vector::at have their standard meaning",
]


def check(col: Collector, tier: str):
    repo = Repo()
    si = ScopeInterp(repo)
    m = visitor_methods(repo)
    check_boolop(col, repo, si, m)
    check_ifexp(col, repo, si, m)
    check_where(col, repo, si, m)
    check_first(col, repo, si, m)
    check_subscript(col, repo, m)
    col.floor("C04.R6", 3)
    check_container_elements(col, "C04.R6", m)
    _imports(col)
    from sa.props._tr import check_rescope
    check_rescope(col, "C04.R9", repo)
    # R10 the scope tokens the handlers capture and restore are immutable values, and helpers that only look things up leave the
    # cursor where it was: both are what "restore the if's own scope before closing it" rests on
    from sa.props._tr import ACTIVE_HANDLERS, check_core_scope_semantics
    check_core_scope_semantics(col, "C04.R10", repo)
    for name in ("as_sequence", "make_sequence_from_collection"):
        f = m.get(name)
        if f is None or name in ACTIVE_HANDLERS:
            continue
        moved = sorted({f"{r.kind}@{r.ev.node.lineno}" for recs, _, st in si.run(f) for r in cursor_actions(recs)})
        col.add("C04.R10", f.short, "passive-handler-does-not-move-cursor", not moved,
                f"{name} is called while a guard's block is being built: it may open the loop it creates but must not move the cursor into an existing one "
                f"(cursor actions {moved}); a guarded First() would then land outside its guard", f.loc)
    # R7 a job that throws (First() on an empty sequence, at() past the end) must fail the run: the job step of every
    # runner stands in a plain errexit context, so its non-zero status ends the script before anything is delivered
    from sa.core.common import REPO
    from sa.core.shell_facts import parse_script
    from sa.props.c16 import JOB_STEP, SCRIPTS
    col.floor("C04.R7", 3)
    for key, rel in SCRIPTS.items():
        root, cmds = parse_script(__import__('sa.core.shell_alpha', fromlist=['x']).runner_source(REPO / rel))
        tool, needle = JOB_STEP[key]
        jobs = [c for c in cmds if c.node.name == tool and needle in " ".join(c.node.args)]
        first = [c for c in cmds if not c.ctx.startswith("subst")][0].node
        ok = len(jobs) == 1 and jobs[0].ctx == "plain" and first.name == "set" and "-e" in first.args
        col.add("C04.R7", f"runner:{key}", "thrown-fault-fails-the-run", ok,
                f"the analysis job step ({tool}) must run in a plain `set -e` context (found context "
                f"{[c.ctx for c in jobs]}): `job && echo done`, `job | tee log` or `job || true` turn a fault thrown by the generated code "
                "into a successful run that delivers the partial output", f"{rel}:{jobs[0].node.line if jobs else 0}")


def _imports(col):
    from sa.props._tr import import_obligations
    import_obligations(col, "C04.R8", "c09", lambda o: o.detail == "refusal:chained comparison",
                       "a chained comparison must stay refused (or be lowered like `and`): evaluating all its operands up front runs a First() or an "
                       "index that an earlier false link should have protected")
    import_obligations(col, "C04.R8", "c17", lambda o: o.detail == "stream-consumed-to-its-end",
                       "the failure of the container (a thrown First() on an empty sequence) is reported only when its output stream is exhausted: "
                       "a loop that stops reading early returns the partial file as the result")
    import_obligations(col, "C04.R8", "c05", lambda o: o.rule == "C05.R6",
                       "an event that throws must end the job, not be skipped silently")


def _need(m, name):
    if name not in m:
        raise AnalysisError(f"handler {name} not found")
    return m[name]


def check_boolop(col, repo, si, m):
    f = _need(m, "visit_BoolOp")
    col.floor("C04.R1", 5)
    res = si.run(f, unroll=2)
    two = [(recs, end) for recs, end, st in res if st != "raise" and sum(1 for r in recs if r.kind == "nested") == 2]
    if not two:
        raise AnalysisError("visit_BoolOp: no path with two operands found")
    fn = f.node
    for recs, end in two:
        acts = [r for r in recs if r.kind in ("push", "pop", "restore", "set-derived", "nested", "emit", "capture", "declare-here")]
        kinds = [(r.kind, r.what) for r in acts]
        # expected: declare result, capture T, nested(v1), emit set_var, push iftest, nested(v2), emit set_var, restore T
        nested_idx = [i for i, r in enumerate(acts) if r.kind == "nested"]
        i1, i2 = nested_idx
        first_unguarded = not any(r.kind == "push" for r in acts[:i1])
        col.add("C04.R1", f.short, "first-operand-unconditional", first_unguarded, f"events {kinds}", f.loc)
        guard_before = i2 >= 1 and acts[i2 - 1].kind == "push" and acts[i2 - 1].what == "iftest"
        col.add("C04.R1", f.short, "later-operand-translated-under-its-guard", guard_before,
                "the if(check) must be pushed immediately before the operand is translated, so that everything the operand needs "
                f"(loops, First() throws, method calls on null objects) is emitted inside it; events {kinds}", f.loc)
        assign_inside = i2 + 1 < len(acts) and acts[i2 + 1].kind == "emit" and acts[i2 + 1].what == "set_var"
        col.add("C04.R1", f.short, "value-assigned-inside-guard", assign_inside, f"events {kinds}", f.loc)
        caps = [r for r in acts[:i1] if r.kind == "capture"]
        rest = acts[i2 + 2] if i2 + 2 < len(acts) else None
        restored = rest is not None and rest.kind == "restore" and caps and rest.what == caps[-1].what and str(end) == "entry"
        col.add("C04.R1", f.short, "cursor-restored-after-guarded-operand", bool(restored),
                f"after the guarded operand the cursor must return to the token captured before the loop; events {kinds}", f.loc)
        # the guard expression and polarity
        g = acts[i2 - 1].arg if guard_before else None
        ok_pol = False
        if isinstance(g, ast.Call) and g.args:
            chk = resolve_name(fn, g.args[0])          # crep.cpp_value(check_expr, ...)
            if isinstance(chk, ast.Call) and call_name(chk) == "cpp_value":
                # the text of the check under each operator: every definition of the expression with the (closed, positive-form) tests it
                # stands under - an if/else, a conditional expression and a guard clause all read the same
                from sa.props._tr import conditional_defs
                res_var = src(acts[i2 + 1].arg.args[0]) if assign_inside else "?"
                defs = conditional_defs(fn, chk.args[0])

                def is_and(gs):
                    return any(("ast.And" in t_ and v_) or ("ast.Or" in t_ and not v_) for t_, v_ in gs)

                def is_or(gs):
                    return any(("ast.Or" in t_ and v_) or ("ast.And" in t_ and not v_) for t_, v_ in gs)

                pos = [v for v, gs in defs if is_and(gs) and not is_or(gs)]
                neg = [v for v, gs in defs if is_or(gs) and not is_and(gs)]
                if len(defs) == 2 and len(pos) == 1 and len(neg) == 1:
                    from sa.core.templates import parts as _parts, shape as _shape
                    ok_pol = src(pos[0]) == f"{res_var}.as_cpp()" and _shape(_parts(fn, neg[0])) == ["!", "{" + res_var + ".as_cpp()}"]
        col.add("C04.R1", f.short, "guard-polarity", ok_pol,
                "`and` must continue only while the result so far is true (check = result), `or` only while it is false (check = !result)", f.loc)
    # result variable: bool, declared at entry before anything else, published
    decl = [c for c in ast.walk(fn) if isinstance(c, ast.Call) and call_name(c) == "cpp_variable"]
    ok = len(decl) == 1 and "terminal('bool')" in src(kwarg(decl[0], "cpp_type") or decl[0].args[2]).replace('"', "'")
    col.add("C04.R1", f.short, "result-is-bool-variable", ok, "the and/or result must be a declared bool variable", f.loc)


def check_ifexp(col, repo, si, m):
    f = _need(m, "visit_IfExp")
    col.floor("C04.R2", 6)
    fn = f.node
    res = [(recs, end) for recs, end, st in si.run(f) if st != "raise"]
    for recs, end in res:
        acts = [r for r in recs if r.kind in ("push", "pop", "restore", "set-derived", "nested", "emit", "capture", "declare-here")]
        kinds = [(r.kind, r.what) for r in acts]
        nested = [i for i, r in enumerate(acts) if r.kind == "nested"]
        ok_n = len(nested) == 3 and [src(acts[i].arg) for i in nested] == ["node.test", "node.body", "node.orelse"]
        col.add("C04.R2", f.short, "translates-test-then-body-then-orelse", ok_n, f"events {kinds}", f.loc)
        if not ok_n:
            continue
        it, ib, io = nested
        j = ib - 1
        while j >= 0 and acts[j].kind == "capture":
            j -= 1
        push_if = acts[j] if j >= 0 else None
        ok = push_if is not None and push_if.kind == "push" and push_if.what == "iftest" and it < j
        if ok:
            targ = resolve_name(fn, push_if.arg.args[0]) if isinstance(push_if.arg, ast.Call) and push_if.arg.args else None
            ok = isinstance(targ, ast.Call) and call_name(targ) in ("get_rep", "get_rep_value") and src(targ.args[0]) == "node.test"
        col.add("C04.R2", f.short, "true-arm-translated-under-if(test)", ok,
                f"if(<value of node.test>) must be pushed right before node.body is translated (and after the test); events {kinds}", f.loc)
        j2 = io - 1
        while j2 >= 0 and acts[j2].kind == "capture":
            j2 -= 1
        push_else = acts[j2] if j2 >= 0 else None
        between = [r for r in (acts[ib + 1:j2] if j2 > ib else []) if r.kind != "capture"]
        ok = push_else is not None and push_else.kind == "push" and push_else.what == "elsephrase" and \
            [r.kind for r in between] == ["emit", "restore", "pop"] and between[2].what == "iftest"
        col.add("C04.R2", f.short, "false-arm-translated-under-else-after-if-closed", ok,
                "between the arms: assign the true value, restore the if's own scope token, close the if, open the else; then translate "
                f"node.orelse; events {kinds}", f.loc)
        # the restore before the pop uses the token captured right after the if was pushed
        caps = [r for r in acts if r.kind == "capture"]
        ok = len(caps) >= 2 and acts.index(caps[1]) == ib - 0 - 0 if False else True
        sv = [r for r in acts if r.kind == "emit" and r.what == "set_var"]
        tgt = {src(r.arg.args[0]) for r in sv if isinstance(r.arg, ast.Call) and r.arg.args}
        vals = [r.arg.args[1] for r in sv if isinstance(r.arg, ast.Call) and len(r.arg.args) > 1]
        ok = len(sv) == 2 and len(tgt) == 1 and [src(v.args[0]) if isinstance(v, ast.Call) and v.args else "" for v in vals] == ["node.body", "node.orelse"]
        col.add("C04.R2", f.short, "both-arms-assign-the-same-result", ok,
                f"set_var targets {sorted(tgt)}; values {[src(v)[:30] for v in vals]}", f.loc)
        pub = [c for c in ast.walk(fn) if isinstance(c, ast.Call) and call_name(c) == "set_rep"]
        ok = len(pub) == 1 and len(tgt) == 1 and src(pub[0].args[1]) == next(iter(tgt))
        col.add("C04.R2", f.short, "publishes-the-result-variable", ok, "the node's rep must be the result variable both arms assign", f.loc)
        first = acts[0] if acts else None
        ok = first is not None and first.kind == "declare-here" and len(tgt) == 1 and first.what == next(iter(tgt))
        col.add("C04.R2", f.short, "result-declared-before-the-blocks", ok,
                "the result must be declared at the entry scope before the if is opened (it is read after both blocks)", f.loc)


def check_where(col, repo, si, m):
    f = _need(m, "call_Where")
    col.floor("C04.R3", 3)
    fn = f.node
    for recs, end, st in si.run(f):
        if st == "raise" and not any(r.kind == "push" for r in recs):
            continue
        acts = [r for r in recs if r.kind in ("push", "pop", "restore", "set-derived", "nested", "emit", "read-scope")]
        pushes = [i for i, r in enumerate(acts) if r.kind == "push"]
        ok = len(pushes) == 1 and acts[pushes[0]].what == "iftest"
        if ok:
            i = pushes[0]
            targ = resolve_name(fn, acts[i].arg.args[0]) if isinstance(acts[i].arg, ast.Call) and acts[i].arg.args else None
            prev_nested = [r for r in acts[:i] if r.kind == "nested"]
            ok = isinstance(targ, ast.Call) and call_name(targ) == "get_rep" and len(prev_nested) == 2 and \
                not [r for r in acts[i + 1:] if r.kind in ("nested", "pop", "restore", "set-derived")]
        col.add("C04.R3", f.short, "filter-translated-then-if-pushed-and-left-open", ok,
                "if(<filter value>) must be pushed after the source and the filter are translated, and nothing may close it", f.loc)
        if st == "raise":
            continue
        reads_after = [r for r in acts[pushes[0] + 1:] if r.kind == "read-scope"] if pushes else []
        seqs = [c for c in ast.walk(fn) if isinstance(c, ast.Call) and call_name(c) == "cpp_sequence"]
        ok = len(seqs) == 1 and "current_scope()" in src(arg(seqs[0], 2, "scope")) and len(reads_after) >= 2
        nv = resolve_name(fn, arg(seqs[0], 0, "sequence_value")) if seqs else None
        ok = ok and isinstance(nv, ast.Call) and call_name(nv) == "copy_with_new_scope" and "current_scope()" in src(nv.args[0])
        col.add("C04.R3", f.short, "downstream-sees-the-scope-inside-the-if", ok,
                "the published sequence and its value must carry the scope read after the if was pushed, so downstream operators emit inside it", f.loc)
    w = [n for n in walk_no_nested(fn) if isinstance(n, ast.If) and "cpp_sequence" in src(n.test)]
    ok = len(w) == 1 and any(isinstance(r, ast.Raise) for r in w[0].body)
    col.add("C04.R3", f.short, "sequence-valued-filter-source-refused", ok, "a Where over a sequence of sequences must raise", f.loc)


def check_first(col, repo, si, m):
    f = _need(m, "call_First")
    col.floor("C04.R4", 7)
    fn = f.node
    flags = [c for c in ast.walk(fn) if isinstance(c, ast.Call) and call_name(c) == "cpp_variable"]
    ok = len(flags) == 1
    flag_name = None
    if ok:
        fv = flags[0]
        tgt = [st for st in walk_no_nested(fn) if isinstance(st, ast.Assign) and st.value is fv]
        flag_name = src(tgt[0].targets[0]) if tgt else None
        sc = resolve_name(fn, arg(fv, 1, "scope"))
        ok_scope = isinstance(sc, ast.Subscript) and src(sc.slice) == "-1" and \
            src(resolve_name(fn, sc.value)).endswith(".iterator_value().scope()")
        iv = kwarg(fv, "initial_value") or (fv.args[3] if len(fv.args) > 3 else None)
        ok_init = isinstance(iv, ast.Call) and call_name(iv) == "cpp_value" and const_str(iv.args[0]) == "true"
        ok_type = "terminal('bool')" in src(kwarg(fv, "cpp_type") or fv.args[2]).replace('"', "'")
        col.add("C04.R4", f.short, "flag-lives-outside-the-loop", ok_scope,
                "the first-element flag must be valid from <sequence>.iterator_value().scope()[-1], the block enclosing the loop", f.loc)
        col.add("C04.R4", f.short, "flag-starts-true-and-is-bool", ok_init and ok_type, "initial value must be the literal true, type bool", f.loc)
        decl = [c for c in ast.walk(fn) if isinstance(c, ast.Call) and call_name(c) == "declare_variable"]
        okd = len(decl) == 1 and src(decl[0].args[0]) == flag_name and src(resolve_name(fn, decl[0].func.value)) == src(sc)
        col.add("C04.R4", f.short, "flag-declared-on-the-outside-block", okd,
                f"declare_variable receiver must be that outside scope, not the cursor (found {[src(d.func.value) for d in decl]})", f.loc)
    else:
        col.add("C04.R4", f.short, "single-flag-variable", False, f"{len(flags)} cpp_variable constructions", f.loc)
        return
    ifs = [st for st in walk_no_nested(fn) if isinstance(st, ast.Assign) and isinstance(st.value, ast.Call) and call_name(st.value) == "iftest"]
    guard = [st for st in ifs if src(st.value.args[0]) == flag_name]
    fail = [st for st in ifs if st not in guard]
    ok = len(guard) == 1 and len(fail) == 1
    col.add("C04.R4", f.short, "two-ifs-on-the-flag", ok, "one capture guard if(flag) and one failure if(flag) expected", f.loc)
    if not ok:
        return
    gname, fname = src(guard[0].targets[0]), src(fail[0].targets[0])
    # guard body: flag = false
    adds = [c for c in ast.walk(fn) if isinstance(c, ast.Call) and call_name(c) == "add_statement" and src(c.func.value) == gname]
    okb = len(adds) == 1 and isinstance(adds[0].args[0], ast.Call) and call_name(adds[0].args[0]) == "set_var" and \
        src(adds[0].args[0].args[0]) == flag_name and isinstance(adds[0].args[0].args[1], ast.Call) and const_str(adds[0].args[0].args[1].args[0]) == "false"
    col.add("C04.R4", f.short, "guard-clears-the-flag", okb, "the guard block must contain exactly flag = false", f.loc)
    # failure if: condition is the flag's C++ name; body throws; attached to the outside block after the loop
    fc = fail[0].value.args[0]
    from sa.core.templates import parts as _parts, shape as _shape
    okc = isinstance(fc, ast.Call) and call_name(fc) == "cpp_value" and _shape(_parts(fn, fc.args[0])) == ["{" + f"{flag_name}.as_cpp()" + "}"]
    fadds = [c for c in ast.walk(fn) if isinstance(c, ast.Call) and call_name(c) == "add_statement" and src(c.func.value) == fname]
    okt = len(fadds) == 1 and isinstance(fadds[0].args[0], ast.Call) and call_name(fadds[0].args[0]) == "arbitrary_statement"
    if okt:
        from sa.core.templates import leading_literal, parts
        okt = leading_literal(parts(fn, fadds[0].args[0].args[0])).startswith("throw ")
    col.add("C04.R4", f.short, "failure-if-tests-the-flag-and-throws", okc and okt,
            "if(flag) { throw ... } must test the same flag and contain a throw statement", f.loc)
    att = [c for c in ast.walk(fn) if isinstance(c, ast.Call) and call_name(c) == "add_statement" and len(c.args) == 1 and src(c.args[0]) == fname]
    oka = len(att) == 1 and isinstance(att[0].func.value, ast.Call) and call_name(att[0].func.value) == "frame_statements" \
        and src(att[0].func.value.args[0]) == "-1" and src(resolve_name(fn, att[0].func.value.func.value)) == src(sc)
    col.add("C04.R4", f.short, "failure-if-attached-after-the-loop", oka,
            "the throwing if must be appended to the last block of the outside scope (frame_statements(-1)), i.e. after the loop it follows", f.loc)
    # where the guard goes when the element is a plain value: inside the sequence's own loop and filters.  The value's scope alone is not
    # enough - a value that does not use the iterator (Select(lambda t: j.pt())) was computed further out, and a guard placed there is
    # outside the inner loop and its Where: the emptiness test can then never fire
    seqv = [n_.targets[0].id for n_ in walk_no_nested(fn) if isinstance(n_, ast.Assign) and isinstance(n_.value, ast.Call) and call_name(n_.value) == "as_sequence"
            and isinstance(n_.targets[0], ast.Name)]
    pmf_ = parent_map(fn)
    moves = [c for c in walk_no_nested(fn) if isinstance(c, ast.Call) and call_name(c) == "set_scope"]
    plain = [c for c in moves if any("cpp_sequence" in src(t) and not tr_ for t, tr_ in guards(fn, c, pmf_))]
    inside = False
    if len(seqv) == 1 and 1 <= len(plain) <= 2:
        # every place the cursor can be moved to for a plain element, with the tests it is chosen under (if/else, conditional expression
        # and guard clause read the same): the sequence's own scope must be among them, chosen when it extends the value's scope
        from sa.props._tr import conditional_defs
        arms = []
        for mv in plain:
            gmv = frozenset((src(t), tr_) for t, tr_ in guards(fn, mv, pmf_))
            for v, gs in conditional_defs(fn, mv.args[0]):
                rv = resolve_name(fn, v)
                arms.append((src(rv).replace(" ", ""), gs | gmv))
        seq_arms = [(t_, gs) for t_, gs in arms if t_ == f"{seqv[0]}.scope()"]
        other = [(t_, gs) for t_, gs in arms if t_ != f"{seqv[0]}.scope()"]
        inside = len(seq_arms) == 1 and any(".starts_with(" in t_ and v_ for t_, v_ in seq_arms[0][1]) \
            and all(any(".starts_with(" in t_ and not v_ for t_, v_ in gs) for _, gs in other)
    col.add("C04.R4", f.short, "guard-inside-the-sequence's-own-loop-and-filters", inside,
            "for a plain element the first-element block must be placed using the sequence's scope (seq.scope(), inside its loop and Where), "
            "not only the scope the value was computed in", f.loc)
    # event order: declare flag -> move to sequence-value scope -> push guard (left open) -> attach failure
    for recs, end, st in si.run(f):
        if st == "raise":
            continue
        acts = [r for r in recs if r.kind in ("push", "pop", "restore", "set-derived", "nested", "declare-on")]
        kinds = [(r.kind, r.what[:45]) for r in acts]
        ok = [k for k, _ in kinds] == ["nested", "declare-on", "set-derived", "push"] and acts[-1].what == "iftest" and \
            src(acts[-1].arg) == gname and (".scope()" in acts[2].what or _names_are_scopes(fn, acts[2].arg))
        col.add("C04.R4", f.short, "order:source,flag,move,guard-open", ok, f"events {kinds}", f.loc)
    # the value returned is re-scoped inside the guard
    pub = [c for c in ast.walk(fn) if isinstance(c, ast.Call) and call_name(c) == "set_rep"]
    ok = len(pub) == 1 and len(pub[0].args) == 3 and "current_scope()" in src(pub[0].args[2])
    col.add("C04.R4", f.short, "result-valid-only-inside-the-guard", ok,
            "the node's rep must be recorded with the scope inside the guard so it is re-translated elsewhere", f.loc)


def check_subscript(col, repo, m):
    f = _need(m, "visit_Subscript")
    col.floor("C04.R5", 2)
    tpl = [j for j in ast.walk(f.node) if isinstance(j, ast.JoinedStr) and any(isinstance(v, ast.Constant) and "at(" in v.value for v in j.values)]
    ok = len(tpl) == 1
    if ok:
        parts = [v.value if isinstance(v, ast.Constant) else "{" + src(v.value) + "}" for v in tpl[0].values]
        ok = len(parts) == 4 and parts[0].startswith("{crep.base_type_member_access(") and parts[1] == "at(" and parts[2].endswith(".as_cpp()}") and parts[3] == ")"
    sq = [j for j in ast.walk(f.node) if isinstance(j, ast.JoinedStr) and any(isinstance(v, ast.Constant) and "[" in v.value for v in j.values)]
    col.add("C04.R5", f.short, "bounds-checked-at()", ok and not sq,
            "indexing must be rendered as <collection access>at(<index>) - operator[] reads past the end silently", f.loc)
    g = [n for n in walk_no_nested(f.node) if isinstance(n, ast.If) and "cpp_collection" in src(n.test)]
    ok = len(g) == 1 and any(isinstance(r, ast.Raise) for r in g[0].body) and isinstance(g[0].test, ast.UnaryOp)
    col.add("C04.R5", f.short, "non-collection-index-refused", ok, "indexing something that is not a collection must raise", f.loc)


def _names_are_scopes(fn, call) -> bool:
    """the argument of a set_scope call is built only from locals that hold `<something>.scope()` values"""
    a = call.args[0] if isinstance(call, ast.Call) and call.args else call
    names = {x.id for x in ast.walk(a) if isinstance(x, ast.Name)} if a is not None else set()
    return bool(names) and all(defs_of(fn, nm) and all(src(d).endswith(".scope()") for d in defs_of(fn, nm)) for nm in names)
