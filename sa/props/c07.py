"""C07 - translating a query is independent of every query handled before it.

An effect/ownership question, decided statically: inventory of state that
survives a translation, every writer of it (through local aliases and helper
calls), coverage of each written cell by executor.reset(), reset on every exit of
the two translation entry points, no by-value import / aliasing of registries,
fresh visitor per translation.
"""
from __future__ import annotations

import ast
from typing import Dict, List, Set

from sa.core.common import AnalysisError, Collector
from sa.core.effects import Effects
from sa.core.paths import enumerate_paths
from sa.core.pyfacts import Repo, call_name, f_cls, src, walk_no_nested, ordk, ordk_end

EXPLANATION = (
    "Effect analysis over all Python modules of func_adl_xAOD: R1 inventory of surviving state (module-level "
    "mutables / names rebound under `global`, class attributes, mutable default arguments, executor instance "
    "attributes); R2 every write to such a cell from any function, found through a local points-to fixpoint and "
    "per-function returns/mutates summaries over the resolved call graph; R3 every written cell is re-initialised "
    "to a fresh value by executor.reset (backend overrides call super().reset() first) or is on a frozen allow-list "
    "with a reason; R4 both translation entry points reach reset() on every exit including exceptions; R5 registries "
    "are not imported by value, surviving containers are not stored by reference into reset-able registries, mutable "
    "defaults are never stored/mutated; R6 a fresh visitor/generated_code per translation."
)
ASSUMPTIONS = [
    "each query arrives as its own AST object, except for the recorded finding C07.R11 (the caller's tree is edited in place, so re-translating the same object differs)",
    "objects created inside a translation (visitor, generated_code, representations) die with it unless stored in an inventoried cell",
    "numbering of generated names is outside the property (unique_var_index is allowed to survive)",
]

# (cell) -> reason it may survive a translation
ALLOW_CELLS = {
    "G:func_adl_xAOD.common.cpp_vars.unique_var_index":
        "name counter: only renumbers generated names, which the property factors out; referenced only by unique_name",
    "G:func_adl_xAOD.common.cpp_functions.functions_to_replace":
        "written only by add_function_mapping, every call of which is a module-level (import time) statement",
}
MUTATORS = {"append", "extend", "insert", "update", "clear", "pop", "remove", "add", "setdefault", "sort", "reverse", "discard", "popitem"}
# executor attributes that are configuration constants of the backend (assigned once in __init__, never written later)
CONFIG_ATTRS = {"_file_names", "_runner_name", "_template_dir_name", "_method_names", "_ecc"}


def check(col: Collector, tier: str):
    repo = Repo()
    eff = Effects(repo)
    col.info["modules"] = len(repo.modules)
    col.info["functions"] = len(list(repo.all_functions()))
    col.info["call_sites_seen"] = repo.n_calls
    col.info["call_sites_resolved"] = repo.n_resolved
    col.info["state_cells"] = {
        "module": sorted(eff.module_state), "class": sorted(eff.class_state),
        "default_args": sorted(eff.default_state), "executor_instance": sorted(eff.instance_state)}
    if len(eff.module_state) < 5 or len(eff.instance_state) < 6:
        raise AnalysisError("state inventory smaller than confirmed by hand (module cells "
                            f"{len(eff.module_state)}, executor cells {len(eff.instance_state)})")

    ex = repo.find_class("executor", hint="common.executor")
    reset = ex.methods.get("reset")
    if reset is None:
        raise AnalysisError("executor.reset not found")

    # ---------------- reset coverage table
    covered: Dict[str, str] = {}
    for n in walk_no_nested(reset.node):
        if isinstance(n, ast.Assign):
            for t in n.targets:
                fresh = isinstance(n.value, (ast.Dict, ast.List, ast.Set)) and not getattr(n.value, "keys", None) and not getattr(n.value, "elts", None) \
                    or (isinstance(n.value, ast.Call) and call_name(n.value) in ("dict", "list", "set", "defaultdict")) \
                    or (isinstance(n.value, ast.Constant) and n.value.value in (False, None, 0))
                if isinstance(t, ast.Attribute) and isinstance(t.value, ast.Name) and t.value.id == "self":
                    covered[f"S:{t.attr}"] = "fresh" if fresh else src(n.value)
                elif isinstance(t, ast.Attribute):
                    dotted = repo.canon(reset.module, t)
                    covered[f"G:{dotted}"] = "fresh" if fresh else src(n.value)
    col.info["reset_covers"] = sorted(covered)

    # ---------------- R2/R3 writers and coverage
    writes = eff.all_writes()
    col.info["write_sites"] = len(writes)
    # what the translation entry points (and everything they call, reset excluded) write
    during = set()
    seen_f = set()
    work = [ex.methods[en] for en in ("apply_ast_transformations", "write_cpp_files") if en in ex.methods]
    for k in repo.subclasses(ex):
        work += [k.methods[en] for en in ("apply_ast_transformations", "write_cpp_files") if en in k.methods]
    while work:
        g = work.pop()
        if g.qual in seen_f or g.name == "reset":
            continue
        seen_f.add(g.qual)
        during |= {w.root for w in eff.summaries[g.qual].writes}
        for n in ast.walk(g.node):
            if isinstance(n, ast.Call):
                work.extend(repo.resolve_call(g, n))
    col.info["functions_reachable_from_translation_entry_points"] = len(seen_f)
    col.floor("C07.R3", 6)
    cells: Dict[str, List] = {}
    for w in writes:
        f = w.func
        # construction-time writes of an executor's own attributes, and reset itself, are not translation effects
        if w.root.startswith("S:") and f.name == "__init__":
            continue
        # an executor attribute written only by the caller's configuration methods (never by a translation step) is configuration
        if w.root.startswith("S:") and w.root not in during and w.root[2:] not in CONFIG_ATTRS:
            continue
        if f.name == "reset" and f_cls(f) is not None and f_cls(f).qual in eff.exec_classes:
            continue
        cells.setdefault(w.root, []).append(w)
    for cell in sorted(cells):
        ws = cells[cell]
        writers = sorted({w.func.short for w in ws})
        if cell in ALLOW_CELLS:
            ok = True
            why = ALLOW_CELLS[cell]
            if cell.endswith("functions_to_replace"):
                ok = _only_import_time_callers(repo, "add_function_mapping") and writers == ["add_function_mapping"]
                why += f" (writers now: {writers})"
            if cell.endswith("unique_var_index"):
                ok = writers == ["unique_name"] and _referenced_only_by(repo, "unique_var_index", {"unique_name"})
                why += f" (writers now: {writers})"
            col.add("C07.R3", cell, "allow-listed-cell-still-harmless", ok, why, ws[0].func.loc)
            continue
        # a counter of the name generator under another name or shape (one per base name, say): a module-level cell of cpp_vars that only
        # unique_name writes and reads can influence nothing but the numbering of generated names, which the property factors out
        if cell.startswith("G:func_adl_xAOD.common.cpp_vars.") and writers == ["unique_name"] \
                and _referenced_only_by(repo, cell.rpartition(".")[2], {"unique_name"}):
            col.add("C07.R3", cell, "allow-listed-cell-still-harmless", True,
                    "written and read only by unique_name: it can only change the numbering of generated names", ws[0].func.loc)
            continue
        if cell.startswith("D:"):
            col.add("C07.R3", cell, "default-argument-mutated", False,
                    f"the mutable default argument object is mutated in place by {writers}: it is shared by every call and "
                    "no reset can re-initialise it", ws[0].func.loc)
            continue
        if cell.startswith("S:") and cell[2:] in CONFIG_ATTRS:
            col.add("C07.R3", cell, "config-attribute-written-after-construction", False,
                    f"executor attribute {cell[2:]} is set once at construction and is not reset, but is written during a translation "
                    f"by {writers} ({ws[0].how}): whatever one query adds is seen by the next", f"{ws[0].func.module.rel}:{ws[0].node.lineno}")
            continue
        ok = covered.get(cell) == "fresh" or _reinit_at_entry(ex, cell, ws)
        col.add("C07.R3", cell, "reset-covers-written-cell", ok,
                f"state cell written by {writers} ({ws[0].how} at {ws[0].func.module.rel}:{ws[0].node.lineno}) "
                + ("is re-initialised by executor.reset" if ok else
                   f"is not re-initialised to a fresh value by executor.reset (reset covers {sorted(covered)})"),
                f"{ws[0].func.module.rel}:{ws[0].node.lineno}")

    # every executor instance attribute is either config (never written later) or covered by reset
    for cell in sorted(eff.instance_state):
        attr = cell[2:]
        if attr in CONFIG_ATTRS or cell not in during:
            continue
        col.add("C07.R3", cell, "instance-cell-covered-by-reset", covered.get(cell) == "fresh" or _reinit_at_entry(ex, cell, cells.get(cell, [])),
                f"executor attribute {attr} holds per-translation state and must be re-initialised by reset()", reset.loc)
    # what reset() clears must be per-query state: an executor attribute that the translation entry points never write
    # (set by the constructor or a configuration method such as add_extended_md) is configuration - clearing it makes the
    # second query on an executor see a differently configured executor than the first
    own_writes = {w.root for w in writes if w.func.name not in ("__init__", "reset") and f_cls(w.func) is not None and f_cls(w.func).qual in eff.exec_classes}
    col.floor("C07.R9", 3)
    for cell in sorted(c for c in covered if c.startswith("S:")):
        writers = sorted({w.func.short for w in writes if w.root == cell and w.func.name not in ("__init__", "reset")})
        per_query = cell in during
        col.add("C07.R9", cell, "reset-clears-only-what-a-translation-writes", per_query,
                f"executor.reset() re-initialises {cell[2:]}, which no translation step writes (writers besides the constructor: {writers}): it is configuration "
                "given by the caller, and the query after the first on the same executor is translated without it", reset.loc)
    # class-level attributes holding a computed/mutable value are process-wide state
    for cell, node in sorted(eff.class_state.items()):
        cq = cell[2:].rpartition(".")[0]
        if isinstance(node.value, ast.Call) and call_name(node.value) in ("tuple", "frozenset", "namedtuple", "TypeVar", "property") \
                and not node.value.args:
            continue   # immutable empty value
        col.add("C07.R1", cell, "no-class-level-mutable-or-computed-state", False if not _is_const_call(node) else True,
                f"class attribute {cell[2:]} = {src(node.value)[:60]} is evaluated once per process and shared by every instance and query",
                f"{_mod_of(repo, cq)}:{node.lineno}")
    # mutable default arguments must be read-only
    col.floor("C07.R5", 3)
    for d, (f, p, dflt) in sorted(eff.default_state.items()):
        stored = _param_escapes(f, p.arg)
        col.add("C07.R5", d, "mutable-default-not-stored", not stored,
                f"parameter {p.arg}={src(dflt)} of {f.short} " + (f"is {stored}: the one default object is then shared across "
                "executors/queries" if stored else "is only read"), f.loc)

    # ---------------- backend overrides of reset call super().reset() first
    col.floor("C07.R3b", 3)
    for k in repo.subclasses(ex):
        r = k.methods.get("reset")
        if r is None:
            continue
        first = r.node.body[0]
        if isinstance(first, ast.Expr) and isinstance(first.value, ast.Constant):
            first = r.node.body[1] if len(r.node.body) > 1 else first
        ok = isinstance(first, ast.Expr) and isinstance(first.value, ast.Call) and src(first.value) == "super().reset()"
        col.add("C07.R3b", f"{k.name}.reset", "super-reset-first", ok,
                "a backend reset must start with super().reset() and only then re-add its defaults", r.loc)
        # what it re-adds is what the constructor added
        init = k.methods.get("__init__")
        init_calls = {src(c) for c in ast.walk(init.node) if isinstance(c, ast.Call) and call_name(c).startswith("define_default")} if init else set()
        reset_calls = {src(c) for c in ast.walk(r.node) if isinstance(c, ast.Call) and call_name(c).startswith("define_default")}
        col.add("C07.R3b", f"{k.name}.reset", "re-adds-constructor-defaults", init_calls == reset_calls and bool(init_calls),
                f"defaults added at construction {sorted(init_calls)} vs re-added by reset {sorted(reset_calls)}", r.loc)

    # ---------------- R10 the defaults a backend registered are still there when ITS next translation starts
    # they live in the process-wide registry that EVERY executor's reset() empties; only the resetting executor re-adds its own
    col.floor("C07.R10", 3)
    base_clears = sorted(c for c in covered if c.startswith("G:"))
    aat0 = ex.methods["apply_ast_transformations"]
    for k in repo.subclasses(ex):
        r = k.methods.get("reset")
        if r is None:
            continue
        dcalls = sorted({call_name(c) for c in ast.walk(r.node) if isinstance(c, ast.Call) and call_name(c).startswith("define_default")})
        if not dcalls:
            continue
        entry = k.methods.get("apply_ast_transformations", aat0)
        # re-registered at the start of a translation: directly, or through a hook method the entry point calls on self
        reg = False
        for c in walk_no_nested(entry.node):
            if isinstance(c, ast.Call):
                if call_name(c) in dcalls:
                    reg = True
                if isinstance(c.func, ast.Attribute) and src(c.func.value) == "self" and c.func.attr != "reset":
                    hook = k.methods.get(c.func.attr)
                    if hook is not None and any(isinstance(x, ast.Call) and call_name(x) in dcalls for x in ast.walk(hook.node)):
                        reg = True
        # or the registry the defaults are written to is not shared by other executors
        dwrites = set()
        for dn in dcalls:
            for g in repo.functions_named(dn):
                if g.module.name.startswith(k.module.name.rpartition(".")[0]):
                    dwrites |= eff.trans_writes().get(g.qual, set())
        shared = sorted(set(base_clears) & dwrites)
        col.add("C07.R10", k.name, "own-defaults-survive-other-executors-reset", reg or not shared,
                f"{k.name} registers its default method types ({dcalls}) in {shared}, which every executor's reset() empties; it re-adds them only in its "
                "own reset(), so after another backend's executor has handled a query the defaults are gone when this one starts its next translation "
                "(history: create this executor; a query on another backend's executor; a query here)", r.loc)
    # ---------------- R11 the caller's query AST is an input, not a scratch pad
    # func_adl's passes are ast.NodeTransformers: they rewrite the tree they are given (extract_metadata removes the MetaData
    # calls, the plug-in finder replaces call.func).  The caller keeps the tree (ObjectStream.value() can be called again).
    col.floor("C07.R11", 1)
    a0 = aat0.node.args.args[1].arg
    first_use = None
    for st in aat0.node.body:
        for n in ast.walk(st):
            if isinstance(n, ast.Call) and any(isinstance(x, ast.Name) and x.id == a0 for x in n.args):
                first_use = n
                break
        if first_use is not None:
            break
    copied = False
    if first_use is not None:
        cn = call_name(first_use)
        if cn in ("deepcopy", "copy"):
            copied = True
        else:
            for g in repo.resolve_call(aat0, first_use):
                if any(isinstance(c, ast.Call) and call_name(c) in ("deepcopy", "copy") for c in ast.walk(g.node)):
                    copied = True
    col.add("C07.R11", aat0.short, "callers-ast-copied-before-the-in-place-passes", copied,
            f"the query tree received as `{a0}` goes straight into {call_name(first_use) if first_use is not None else '?'}(...), a NodeTransformer that edits it in place: "
            "after one translation the caller's tree has lost its MetaData calls and carries this translation's plug-in nodes, so executing the same "
            "query object again gives a different package", aat0.loc)
    # ---------------- R4 reset on every exit
    col.floor("C07.R4", 3)
    for name, need_normal in (("apply_ast_transformations", False), ("write_cpp_files", True)):
        f = ex.methods.get(name)
        if f is None:
            raise AnalysisError(f"executor.{name} not found")
        exc_ok, where = _exception_exits_reset(repo, eff, f)
        col.add("C07.R4", f"executor.{name}", "reset-on-exception-exit", exc_ok,
                "a translation that raises after writing registries/blocks must pass through self.reset() before the exception "
                f"leaves (try/except-reset-raise or try/finally around the body); {where}", f.loc)
        if need_normal:
            paths = [p for p in enumerate_paths(f.node, unroll=1) if p.status in ("return", "end")]
            ok = bool(paths) and all(any(e.kind == "call" and src(e.node) == "self.reset()" for e in p.events) for p in paths)
            col.add("C07.R4", f"executor.{name}", "reset-on-normal-exit", ok,
                    f"every returning path ({len(paths)}) must call self.reset()", f.loc)

    # a query that was transformed but never written must not leak into the next translation: either reset() is called
    # unconditionally at the start of apply_ast_transformations, or a pending flag protocol guards it
    aat = ex.methods["apply_ast_transformations"]
    ok, why = _pending_protocol(repo, eff, ex, aat, reset)
    col.add("C07.R4", "executor.apply_ast_transformations", "unfinished-translation-is-reset-before-the-next", ok,
            "history [transform q1; transform q2; write q2]: what q1 declared (method types, enums, job scripts) must be gone before q2 "
            "is transformed; " + why, aat.loc)

    # the pending-translation guard lives on the executor, the registries it protects are process-wide: an unfinished translation on
    # ANOTHER executor is not seen by it
    if "pending-flag protocol" in why:
        glob_cells = sorted(c for c in covered if c.startswith("G:"))
        col.add("C07.R12", "executor.apply_ast_transformations", "pending-guard-has-the-extent-of-the-state-it-protects", not glob_cells,
                f"the pending flag is an attribute of one executor, but what an unfinished translation leaves behind is in {glob_cells}: history "
                "[executor A transforms a query declaring pt -> int and never writes it; a NEW executor B translates a plain query] gives B the int column",
                aat.loc)
    # ---------------- R5 registries not imported by value
    regs = {c.rpartition(".")[2]: c for c in covered if c.startswith("G:")}
    for m in repo.modules.values():
        for n in ast.walk(m.tree):
            if isinstance(n, ast.ImportFrom):
                for a in n.names:
                    if a.name in regs and regs[a.name][2:].rpartition(".")[0].endswith(n.module or "\0"):
                        col.add("C07.R5", f"{m.name}", f"by-value-import:{a.name}", False,
                                f"`from {n.module} import {a.name}` binds the old dict: reset rebinds the module attribute and this "
                                "module would keep reading/writing the stale registry", f"{m.rel}:{n.lineno}")
    col.add("C07.R5", "imports", "registries-not-imported-by-value", True,
            f"scanned {len(repo.modules)} modules for by-value imports of {sorted(regs)}")
    # surviving containers stored by reference into a reset-able registry
    _check_alias_stores(col, repo, eff, covered)

    # a representation cached on an AST node by an earlier translation is never valid in a later one
    from sa.props._tr import check_prefix_test
    col.floor("C07.R7", 4)
    check_prefix_test(col, "C07.R7", repo)
    from sa.props._tr import check_no_state_on_query_nodes
    check_no_state_on_query_nodes(col, "C07.R7", repo)
    # ---------------- R8 carriers outside the executor: the output directory and the dataset object
    from sa.props._tr import check_copy_template
    col.floor("C07.R8", 3)
    check_copy_template(col, "C07.R8", repo, details=("output-file-is-this-query's-rendering", "output-file-replaced-not-overlaid"))
    lds = repo.find_class("LocalDataset", hint="common.local_dataset")
    for k in [lds] + list(repo.subclasses(lds)):
        bad = []
        for name, f in k.methods.items():
            if name == "__init__":
                continue
            selfn = f.node.args.args[0].arg if f.node.args.args else "self"
            # what depends on this call's arguments (the query): parameters, anything computed from them, and any object a
            # tainted value was handed to (exe.apply_ast_transformations(a) makes exe carry the query's declarations)
            tainted = {a.arg for a in f.node.args.args[1:]} | {a.arg for a in f.node.args.kwonlyargs}
            names_in = lambda e: {x.id for x in ast.walk(e) if isinstance(x, ast.Name)}
            changed = True
            while changed:
                changed = False
                for n in ast.walk(f.node):
                    if isinstance(n, (ast.Assign, ast.AnnAssign, ast.AugAssign)) and getattr(n, "value", None) is not None and names_in(n.value) & tainted:
                        tg = n.targets if isinstance(n, ast.Assign) else [n.target]
                        for t in tg:
                            for x in ast.walk(t):
                                if isinstance(x, ast.Name) and isinstance(x.ctx, ast.Store) and x.id not in tainted:
                                    tainted.add(x.id)
                                    changed = True
                    if isinstance(n, ast.Call) and isinstance(n.func, ast.Attribute) and any(names_in(a) & tainted for a in list(n.args) + [kw.value for kw in n.keywords]):
                        r = n.func.value
                        while isinstance(r, (ast.Attribute, ast.Subscript, ast.Call)):
                            r = r.func if isinstance(r, ast.Call) else r.value
                        if isinstance(r, ast.Name) and r.id != selfn and r.id not in tainted:
                            tainted.add(r.id)
                            changed = True
                    if isinstance(n, (ast.With, ast.For)):
                        pairs = [(i.context_expr, i.optional_vars) for i in n.items] if isinstance(n, ast.With) else [(n.iter, n.target)]
                        for e, t in pairs:
                            if t is not None and names_in(e) & tainted:
                                for x in ast.walk(t):
                                    if isinstance(x, ast.Name) and x.id not in tainted:
                                        tainted.add(x.id)
                                        changed = True
            for n in ast.walk(f.node):
                val = None
                if isinstance(n, (ast.Assign, ast.AnnAssign, ast.AugAssign)) and getattr(n, "value", None) is not None:
                    tg = n.targets if isinstance(n, ast.Assign) else [n.target]
                    if any(isinstance(t, ast.Attribute) and isinstance(t.value, ast.Name) and t.value.id == selfn for t in tg):
                        val = n.value
                elif isinstance(n, ast.Call) and call_name(n) == "setattr" and len(n.args) == 3 and src(n.args[0]) == selfn:
                    val = n.args[2]
                elif isinstance(n, ast.Call) and isinstance(n.func, ast.Attribute) and n.func.attr in MUTATORS \
                        and isinstance(n.func.value, ast.Attribute) and isinstance(n.func.value.value, ast.Name) and n.func.value.value.id == selfn and n.args:
                    val = ast.Tuple(elts=list(n.args), ctx=ast.Load())
                if val is not None and names_in(val) & tainted:
                    bad.append(f"{f.short}:{src(n)[:60]} (line {n.lineno})")
        col.add("C07.R8", k.name, "dataset-object-not-written-by-a-query", not bad,
                f"a dataset object is used for many queries: what one query declares (docker image metadata, the query itself) must stay in locals, "
                f"never on the dataset ({bad})", k.module.rel)
    from sa.props._tr import import_obligations
    import_obligations(col, "C07.R8", "c06", lambda o: o.detail == "finder-built-from-a-copy-of-the-method-table",
                       "what a query's metadata registers must go into a table of its own: a view of the executor's table (an alias, ChainMap(table)) "
                       "writes into it, and reset() never clears it")
    import_obligations(col, "C07.R8", "c06", lambda o: o.detail == "coder-keeps-no-state",
                       "the collection coders live as long as their executor: a table they keep is a history carrier that reset() does not know")
    # ---------------- R6 fresh visitor / generated code per translation
    col.floor("C07.R6", 5)
    wf = ex.methods["write_cpp_files"]
    qv = [n for n in walk_no_nested(wf.node) if isinstance(n, ast.Assign) and isinstance(n.value, ast.Call)
          and call_name(n.value) == "get_visitor_obj"]
    col.add("C07.R6", "executor.write_cpp_files", "visitor-obtained-per-call", len(qv) == 1 and src(qv[0].value.func.value) == "self"
            and isinstance(qv[0].targets[0], ast.Name),
            "write_cpp_files must obtain its visitor from self.get_visitor_obj() into a local on every call", wf.loc)
    for k in repo.subclasses(ex):
        g = k.methods.get("get_visitor_obj")
        if g is None:
            continue
        rets = [r for r in walk_no_nested(g.node) if isinstance(r, ast.Return)]
        ok = len(rets) == 1 and isinstance(rets[0].value, ast.Call) and repo.classes_named(call_name(rets[0].value))
        col.add("C07.R6", f"{k.name}.get_visitor_obj", "constructs-new-visitor", bool(ok),
                "must return a newly constructed visitor (never a cached one)", g.loc)
    qi = repo.method("query_ast_visitor", "__init__")
    made = {src(n.targets[0]): src(n.value) for n in walk_no_nested(qi.node) if isinstance(n, ast.Assign)}
    col.add("C07.R6", "query_ast_visitor.__init__", "fresh-cursor-and-arg-stack",
            made.get("self._gc") == "generated_code()" and made.get("self._arg_stack") == "argument_stack()",
            f"each visitor must own a new generated_code() and argument_stack() (found {made})", qi.loc)
    gi = repo.method("generated_code", "__init__")
    gmade = {src(n.targets[0]): n.value for n in walk_no_nested(gi.node) if isinstance(n, ast.Assign)}
    ok = all(isinstance(v, (ast.List, ast.Tuple, ast.Dict, ast.Call)) for v in gmade.values()) and len(gmade) >= 6
    col.add("C07.R6", "generated_code.__init__", "all-fields-fresh", ok,
            "every field of the emission state must be created in the constructor", gi.loc)


def _pending_protocol(repo, eff, ex, aat, reset):
    body = [s for s in aat.node.body if not (isinstance(s, ast.Expr) and isinstance(s.value, ast.Constant))]
    # statements before the first one that may write surviving state
    head = []
    for st in body:
        w = {x for x in eff.stmt_may_write(aat, st) if x not in ALLOW_CELLS}
        if isinstance(st, ast.If) or (isinstance(st, ast.Assign) and src(st.targets[0]).startswith("self.") and isinstance(st.value, ast.Constant)) \
                or (isinstance(st, ast.Expr) and src(st.value) == "self.reset()"):
            head.append(st)
            continue
        if w:
            break
        head.append(st)
    for st in head:
        if isinstance(st, ast.Expr) and src(st.value) == "self.reset()":
            return True, "unconditional reset at the start"
    for i, st in enumerate(head):
        if isinstance(st, ast.If) and isinstance(st.test, ast.Attribute) and src(st.test).startswith("self.") and not st.orelse \
                and len(st.body) == 1 and isinstance(st.body[0], ast.Expr) and src(st.body[0].value) == "self.reset()":
            flag = st.test.attr
            set_true = any(isinstance(x, ast.Assign) and src(x.targets[0]) == f"self.{flag}" and isinstance(x.value, ast.Constant) and x.value.value is True
                           for x in head[i + 1:])
            set_false = any(isinstance(n, ast.Assign) and src(n.targets[0]) == f"self.{flag}" and isinstance(n.value, ast.Constant) and n.value.value is False
                            for n in walk_no_nested(reset.node))
            init = ex.methods.get("__init__")
            init_false = init is not None and any(isinstance(n, ast.Assign) and src(n.targets[0]) == f"self.{flag}" and isinstance(n.value, ast.Constant)
                                                  and n.value.value is False for n in walk_no_nested(init.node))
            others = [f.short for f in repo.all_functions() for n in walk_no_nested(f.node) if isinstance(n, ast.Assign)
                      and any(isinstance(t, ast.Attribute) and t.attr == flag for t in n.targets) and f.name not in ("__init__", "reset", "apply_ast_transformations")]
            if set_true and set_false and init_false and not others:
                return True, f"pending-flag protocol on self.{flag}"
            return False, f"flag self.{flag}: set True after the check={set_true}, cleared by reset={set_false}, initialised False={init_false}, other writers={others}"
    return False, "apply_ast_transformations neither resets unconditionally nor checks a pending flag before its first write"


def _reinit_at_entry(ex, cell: str, ws) -> bool:
    """Accepted alternative to reset coverage: the cell is an executor attribute written only inside the first
    translation entry point (apply_ast_transformations), where an unconditional top-level statement assigns it a
    fresh container before any other write (so nothing of an earlier query is ever read back)."""
    if not cell.startswith("S:"):
        return False
    attr = cell[2:]
    f = ex.methods.get("apply_ast_transformations")
    if f is None or any(w.func is not f for w in ws) or not ws:
        return False
    fresh_at = None
    for st in f.node.body:
        if isinstance(st, ast.Assign) and src(st.targets[0]) == f"self.{attr}":
            v = st.value
            if (isinstance(v, (ast.Dict, ast.List, ast.Set)) and not getattr(v, "keys", None) and not getattr(v, "elts", None)) \
                    or (isinstance(v, ast.Call) and call_name(v) in ("dict", "list", "set", "defaultdict")):
                fresh_at = st
                break
    if fresh_at is None:
        return False
    lo, hi = ordk(fresh_at), ordk_end(fresh_at)
    others = [w for w in ws if not (lo <= ordk(w.node) <= hi)]
    reads_before = [n for n in ast.walk(f.node) if isinstance(n, ast.Attribute) and src(n) == f"self.{attr}" and ordk(n) < lo]
    return all(ordk(w.node) > hi for w in others) and not reads_before


def _is_const_call(node) -> bool:
    return False


def _mod_of(repo: Repo, class_qual: str) -> str:
    for m in repo.modules.values():
        for c in m.classes.values():
            if c.qual == class_qual:
                return m.rel
    return "?"


def _only_import_time_callers(repo: Repo, fname: str) -> bool:
    for f in repo.all_functions():
        for c in walk_no_nested(f.node):
            if isinstance(c, ast.Call) and call_name(c) == fname:
                return False
    return True


def _referenced_only_by(repo: Repo, name: str, funcs: Set[str]) -> bool:
    for m in repo.modules.values():
        for n in ast.walk(m.tree):
            if isinstance(n, ast.Name) and n.id == name:
                f = repo.enclosing_func(m, n)
                if f is None:
                    if not isinstance(n.ctx, ast.Store):
                        return False
                elif f.name not in funcs:
                    return False
            if isinstance(n, ast.Attribute) and n.attr == name:
                return False
            if isinstance(n, ast.ImportFrom) and any(a.name == name for a in n.names):
                return False
    return True


def _param_escapes(f, pname: str) -> str:
    from sa.core.effects import MUTATORS
    for n in walk_no_nested(f.node):
        if isinstance(n, ast.Assign) and isinstance(n.value, ast.Name) and n.value.id == pname:
            if any(isinstance(t, (ast.Attribute, ast.Subscript)) for t in n.targets):
                return f"stored ({src(n)})"
        if isinstance(n, ast.Return) and isinstance(n.value, ast.Name) and n.value.id == pname:
            return "returned"
        if isinstance(n, ast.Call) and isinstance(n.func, ast.Attribute) and call_name(n) in MUTATORS \
                and isinstance(n.func.value, ast.Name) and n.func.value.id == pname:
            return f"mutated ({src(n)})"
        if isinstance(n, (ast.Assign, ast.AugAssign)):
            for t in (n.targets if isinstance(n, ast.Assign) else [n.target]):
                if isinstance(t, ast.Subscript) and isinstance(t.value, ast.Name) and t.value.id == pname:
                    return f"mutated ({src(n)})"
    return ""


def _broad_reset_try(t: ast.Try, selfname: str = "self"):
    def resets(stmts):
        return any(isinstance(c, ast.Call) and src(c) == f"{selfname}.reset()" for s in stmts for c in ast.walk(s))

    if t.finalbody and resets(t.finalbody):
        return True
    for h in t.handlers:
        broad = h.type is None or src(h.type) in ("Exception", "BaseException")
        reraises = any(isinstance(r, ast.Raise) for r in h.body)
        if broad and resets(h.body) and reraises:
            return True
    return False


def _decorator_protects(repo: Repo, f) -> str:
    """'' if not protected; else a description. Accepted idiom: @<deco> where deco(method) returns a wrapper that
    calls method(self, ...) inside a try with a broad except: self.reset(); raise (or finally: self.reset())."""
    for d in f.node.decorator_list:
        name = d.id if isinstance(d, ast.Name) else (d.attr if isinstance(d, ast.Attribute) else None)
        if not name:
            continue
        cands = [g for g in repo.functions_named(name) if g.cls is None and g.parent is None]
        for g in cands:
            params = [a.arg for a in g.node.args.args]
            if len(params) != 1:
                continue
            inner = [n for n in g.node.body if isinstance(n, ast.FunctionDef)]
            rets = [r for r in g.node.body if isinstance(r, ast.Return)]
            if len(inner) != 1 or len(rets) != 1 or src(rets[0].value) != inner[0].name:
                continue
            w = inner[0]
            wparams = [a.arg for a in w.args.args]
            if not wparams:
                continue
            body = [s for s in w.body if not (isinstance(s, ast.Expr) and isinstance(s.value, ast.Constant))]
            if len(body) != 1 or not isinstance(body[0], ast.Try):
                continue
            t = body[0]
            calls = [c for s in t.body for c in ast.walk(s) if isinstance(c, ast.Call) and src(c.func) == params[0]
                     and c.args and src(c.args[0]) == wparams[0]]
            if calls and _broad_reset_try(t, wparams[0]):
                return f"decorator {name} wraps the call in try/except-reset-raise"
    return ""


def _exception_exits_reset(repo: Repo, eff: Effects, f):
    """Every statement from the first one that may write surviving state onwards lies inside a try whose broad
    handler resets and re-raises (or whose finally resets); or the method is wrapped by a decorator doing so."""
    deco = _decorator_protects(repo, f)
    if deco:
        return True, deco
    fn = f.node
    body = [s for s in fn.body if not (isinstance(s, ast.Expr) and isinstance(s.value, ast.Constant))]
    started = False
    for s in body:
        if isinstance(s, ast.Try) and _broad_reset_try(s):
            started = True   # protected region; anything after it must be protected again or effect-free
            continue
        writes = eff.stmt_may_write(f, s)
        writes = {w for w in writes if w not in ALLOW_CELLS}
        if writes:
            return False, f"statement `{src(s)[:60]}` may write {sorted(writes)[:3]} outside a protecting try"
        if started and isinstance(s, (ast.Return, ast.Import, ast.ImportFrom, ast.Pass)):
            continue
        if started and any(isinstance(c, ast.Call) for c in ast.walk(s)):
            return False, f"statement `{src(s)[:60]}` after the protected region can raise without reset"
    if not started:
        return False, "no try with a broad except/finally that calls self.reset()"
    return True, "inline try/except-reset-raise"


def _argument_roots(repo: Repo, eff: Effects, f, index: int):
    """(surviving-state root, call site) for every call of f in the package whose argument for parameter `index` is rooted in surviving state"""
    params = [a.arg for a in f.node.args.args]
    if index >= len(params):
        return []
    pname = params[index]
    is_method = f_cls(f) is not None and params[:1] in (["self"], ["cls"])
    out = []
    for g in repo.all_functions():
        genv = eff._env_cache.get(g.qual, {})
        glocals = eff._locals_of(g)
        for c in walk_no_nested(g.node):
            if not (isinstance(c, ast.Call) and call_name(c) == f.name):
                continue
            pos = index - (1 if is_method else 0)
            a = c.args[pos] if 0 <= pos < len(c.args) and not any(isinstance(x, ast.Starred) for x in c.args[:pos + 1]) else None
            if a is None:
                a = next((k.value for k in c.keywords if k.arg == pname), None)
            if a is None:
                continue
            for r in eff.roots(g, a, genv, glocals):
                if r[:2] in ("G:", "K:", "S:"):
                    out.append((r, f"{g.short}:{c.lineno}"))
    return out


def _check_alias_stores(col: Collector, repo: Repo, eff: Effects, covered):
    """REG[k] = <expr rooted in another surviving cell> without a copy: later writes to REG[k][..] then land in that cell."""
    n_sites = 0
    for f in repo.all_functions():
        env = eff._env_cache.get(f.qual, {})
        local_names = eff._locals_of(f)
        for n in walk_no_nested(f.node):
            if isinstance(n, ast.Assign):
                for t in n.targets:
                    if isinstance(t, ast.Subscript):
                        troots = eff.roots(f, t.value, env, local_names)
                        troots = {r for r in troots if r in covered}
                        if not troots:
                            continue
                        n_sites += 1
                        all_v = eff.roots(f, n.value, env, local_names)
                        vroots = {r for r in all_v if not r.startswith("P") and r not in troots}
                        # a stored parameter (or something reached from one) is whatever the callers pass: surviving state handed in by a
                        # caller is stored by reference just the same
                        for pr in sorted(r for r in all_v if r.startswith("P") and r[1:].isdigit()):
                            vroots |= {f"{r} (argument {pr[1:]} at {site})" for r, site in _argument_roots(repo, eff, f, int(pr[1:])) if r not in troots}
                        col.add("C07.R5", f.short, f"store-into:{sorted(troots)[0]}", not vroots,
                                f"`{src(n)[:70]}` stores into a reset-able registry a value "
                                + (f"reachable from surviving state {sorted(vroots)} by reference: entries added later are written into that "
                                   "state and survive reset" if vroots else "that is created fresh"), f"{f.module.rel}:{n.lineno}")
            if isinstance(n, ast.Call) and call_name(n) in ("update", "setdefault") and isinstance(n.func, ast.Attribute):
                troots = {r for r in eff.roots(f, n.func.value, env, local_names) if r in covered}
                if troots and n.args:
                    n_sites += 1
                    vroots = set()
                    for a in n.args:
                        vroots |= {r for r in eff.roots(f, a, env, local_names) if not r.startswith("P") and r not in troots}
                    col.add("C07.R5", f.short, f"merge-into:{sorted(troots)[0]}", not vroots,
                            f"`{src(n)[:70]}` merges into a reset-able registry values reachable from surviving state {sorted(vroots)} by reference",
                            f"{f.module.rel}:{n.lineno}")
    col.info["registry_store_sites"] = n_sites
