"""C08 - translation is invariant under wire format, bound names and metadata position.

Not decided: the relational statement itself (two variants of every query give the
same package); qastle / func_adl internals.  Decided (narrow, necessary
conditions): lambda-argument frame discipline, lookup order, sibling agreement of
the tuple and list handlers (qastle has no tuple), plug-in call discovery,
position of metadata extraction and method->call normalisation in the pipeline.
"""
from __future__ import annotations

import ast
import copy

from sa.core.common import AnalysisError, Collector
from sa.core.paths import enclosing, enumerate_paths, parent_map
from sa.core.pyfacts import Repo, call_name, src, walk_no_nested
from sa.props._tr import check_container_elements, check_finder, visitor_methods
from sa.props.c01 import check_pipeline

EXPLANATION = (
    "R1 lambda parameters are bound only inside `with stack_frame(self._arg_stack)`, in the same frame in which the lambda "
    "body is translated, each parameter to the argument at the same position, and the parameter's name text is used only as "
    "the binding key; no other code pushes or pops frames; R2 resolve_id consults the argument stack before the global "
    "namespace registry; visit_Name translates whatever AST the name is bound to; R3 the plug-in rewriter visits children "
    "first and matches by name for both call styles, on a copy of the method table; R4 metadata is extracted and processed "
    "before any other pass looks at the tree and method-style operators are normalised before the name-keyed passes; R5 the "
    "tuple and list handlers are the same code (a Python tuple arrives as a list after a qastle round trip); R6 tuple- and list-valued metadata fields expand alike, and job-script ordering uses the dependencies merged over all declarations of a block."
)
ASSUMPTIONS = [
    "func_adl's stack_frame/argument_stack implement innermost-first lookup and drop a frame when the with block exits",
    "qastle round-trips every construct except tuples (which become lists) and lambda source positions",
]


def check(col: Collector, tier: str):
    repo = Repo()
    m = visitor_methods(repo)
    tr = repo.mod("common.ast_to_cpp_translator")
    # ---------------------------------------------------------------- R1 frames
    from sa.props._tr import check_lambda_frames
    check_lambda_frames(col, "C08.R1", repo, m)
    # the receiver's (Python) name is recorded on the code value: one value per call site, or a rename at one site changes another
    from sa.props._tr import check_code_value_per_call_site
    check_code_value_per_call_site(col, "C08.R1", repo)
    # ---------------------------------------------------------------- R2 lookup order
    col.floor("C08.R2", 3)
    rid = m.get("resolve_id")
    if rid is None:
        raise AnalysisError("resolve_id not found")
    ok = True
    n_paths = 0
    for p in enumerate_paths(rid.node):
        names = [call_name(e.node) for e in p.events if e.kind == "call"]
        n_paths += 1
        if "lookup_name" not in names:
            ok = False
        elif "get_toplevel_ns" in names and names.index("get_toplevel_ns") < names.index("lookup_name"):
            ok = False
        # if the stack lookup succeeded the path must return it without consulting the registry
        conds = [(src(e.node), e.taken) for e in p.events if e.kind == "cond"]
        if ("r is not None", True) in conds and "get_toplevel_ns" in names:
            ok = False
    col.add("C08.R2", rid.short, "bound-names-shadow-global-namespaces", ok,
            f"on all {n_paths} paths the argument stack must be consulted first and win over the namespace registry", rid.loc)
    lk = [c for c in ast.walk(rid.node) if isinstance(c, ast.Call) and call_name(c) == "lookup_name"]
    col.add("C08.R2", rid.short, "looks-up-the-identifier-itself", len(lk) == 1 and src(lk[0].args[0]) == rid.node.args.args[1].arg
            and src(lk[0].func.value) == "self._arg_stack",
            "lookup must be self._arg_stack.lookup_name(<the id>)", rid.loc)
    vn = m.get("visit_Name")
    ok = vn is not None and any(isinstance(c, ast.Call) and call_name(c) == "resolve_id" and src(c.args[0]).endswith(".id") for c in ast.walk(vn.node)) \
        and any(isinstance(c, ast.Call) and call_name(c) == "set_rep" and isinstance(c.args[1], ast.Call) and call_name(c.args[1]) == "get_rep"
                for c in ast.walk(vn.node))
    col.add("C08.R2", "query_ast_visitor.visit_Name", "name-denotes-what-it-is-bound-to", ok,
            "visit_Name must resolve the id and publish the representation of the AST it is bound to", vn.loc if vn else tr.rel)

    # ---------------------------------------------------------------- R3 discovery
    col.floor("C08.R3", 4)
    check_finder(col, "C08.R3", repo)

    # ---------------------------------------------------------------- R4 pipeline (metadata first, normalisation before name-keyed passes)
    sub = Collector("C08")
    check_pipeline(sub, repo)
    col.floor("C08.R4", 2)
    for o in sub.obs:
        col.add("C08.R4", o.construct, o.detail, o.ok, o.msg, o.loc)

    # ---------------------------------------------------------------- R7 chained ~ fused: a value cached on a node is re-used only where it is visible
    from sa.props.c01 import check_cache_guard
    sub1 = Collector("C08")
    check_cache_guard(sub1, repo, m)
    col.floor("C08.R7", 2)
    for o in sub1.obs:
        col.add("C08.R7", o.construct, o.detail, o.ok, o.msg + " (a chained Select re-uses the node of the previous stage's value where the fused form "
                "has a fresh sub-tree: re-use outside the block that computed it puts the statement at a different depth)", o.loc)
    # ---------------------------------------------------------------- R6 metadata values: tuple ~ list, merged job-script dependencies
    from sa.props.c14 import check_ib_fetch_verbatim
    col.floor("C08.R6", 2)
    check_ib_fetch_verbatim(col, "C08.R6", repo)
    from sa.props._tr import import_obligations
    import_obligations(col, "C08.R6", "c14", lambda o: o.detail == "name-competes-with-inject-blocks-only",
                       "two declarations of different kinds and the same name must be accepted wherever along the chain they are attached")
    import_obligations(col, "C08.R6", "c03", lambda o: o.construct == "_extract_column_names",
                       "qastle writes a tuple of column names as a list: the two wire formats agree only if tuple and list are read alike")
    import_obligations(col, "C08.R6", "c11", lambda o: o.detail == "specification-includes-copied",
                       "qastle writes a tuple of include files as a list: a test on the exact container type reads the two wire formats differently")
    import_obligations(col, "C08.R6", "c10", lambda o: o.detail == "registered-under-type-and-method-with-deref-count",
                       "a default that is carried over from the previous metadata item makes the result depend on the order the declarations are met in")
    from sa.props import c15
    sub15 = Collector("C08")
    c15.check(sub15, tier)
    for o in sub15.obs:
        if o.detail in ("guard:dependencies-subset-of-seen", "every-copy-merges-its-dependencies", "same-name-different-script-raises",
                        "block-registered-under-its-name"):
            col.add("C08.R6", o.construct, o.detail, o.ok, o.msg + " (the same block may be declared at several places along the chain: "
                    "the order of emission must not depend on which declaration is met first)", o.loc)

    # ---------------------------------------------------------------- R5 tuple ~ list
    col.floor("C08.R5", 4)
    check_container_elements(col, "C08.R5", m)
    vt, vl = m.get("visit_Tuple"), m.get("visit_List")

    def normal(f):
        n = copy.deepcopy(f.node)
        p = n.args.args[1].arg
        for x in ast.walk(n):
            if isinstance(x, ast.Name) and x.id == p:
                x.id = "_node_"
        body = [s for s in n.body if not (isinstance(s, ast.Expr) and isinstance(s.value, ast.Constant))]
        return ast.dump(ast.Module(body=body, type_ignores=[]))

    col.add("C08.R5", "query_ast_visitor.visit_Tuple~visit_List", "tuple-and-list-handlers-agree", normal(vt) == normal(vl),
            "a Python tuple arrives as a list after a qastle round trip: the two handlers must be the same code up to the parameter name", vl.loc)
