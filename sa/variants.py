"""Mechanical behaviour-preserving rewrites of the whole package (used by the thorough tier and tools/variant_matrix.py).
Each takes a scratch copy of the tree and edits every non-template module in place."""
from __future__ import annotations

import ast
from pathlib import Path
from typing import List


def _py_files(d: Path) -> List[Path]:
    return [p for p in (d / "func_adl_xAOD").rglob("*.py") if "template" not in p.relative_to(d).parts]


def _docstring_offset(body) -> int:
    return 1 if body and isinstance(body[0], ast.Expr) and isinstance(body[0].value, ast.Constant) and isinstance(body[0].value.value, str) else 0


def _rewrite(d: Path, transformer_factory, need_logging: bool = False):
    for p in _py_files(d):
        tree = ast.parse(p.read_text())
        tree = transformer_factory().visit(tree)
        if need_logging and not any(isinstance(n, ast.Import) and any(a.name == "logging" and a.asname is None for a in n.names) for n in tree.body):
            k = _docstring_offset(tree.body)
            # after `from __future__` imports
            while k < len(tree.body) and isinstance(tree.body[k], ast.ImportFrom) and tree.body[k].module == "__future__":
                k += 1
            tree.body.insert(k, ast.Import(names=[ast.alias(name="logging")]))
        ast.fix_missing_locations(tree)
        p.write_text(ast.unparse(tree) + "\n")


# ---------------------------------------------------------------- a debug log line at the top of every function
class _Log(ast.NodeTransformer):
    def visit_FunctionDef(self, node):
        self.generic_visit(node)
        stmt = ast.parse(f"logging.getLogger(__name__).debug('enter {node.name}')").body[0]
        node.body.insert(_docstring_offset(node.body), stmt)
        return node
    visit_AsyncFunctionDef = visit_FunctionDef


def v_log_lines(d: Path):
    _rewrite(d, _Log, need_logging=True)


# ---------------------------------------------------------------- `if c: A else: B`  ->  `if not c: B else: A`
class _NegIf(ast.NodeTransformer):
    def visit_If(self, node):
        self.generic_visit(node)
        if node.orelse and not (len(node.orelse) == 1 and isinstance(node.orelse[0], ast.If)):
            node.test = ast.UnaryOp(op=ast.Not(), operand=node.test)
            node.body, node.orelse = node.orelse, node.body
        return node


def v_negated_ifs(d: Path):
    _rewrite(d, _NegIf)


# ---------------------------------------------------------------- first plain assignment of a local gets an annotation
class _Annot(ast.NodeTransformer):
    def visit_FunctionDef(self, node):
        self.generic_visit(node)
        declared = {n for s in ast.walk(node) if isinstance(s, (ast.Global, ast.Nonlocal)) for n in s.names}
        params = {a.arg for a in node.args.args + node.args.kwonlyargs + node.args.posonlyargs}
        if node.args.vararg:
            params.add(node.args.vararg.arg)
        if node.args.kwarg:
            params.add(node.args.kwarg.arg)
        seen = set()
        new = []
        for st in node.body:          # top-level statements of the function only: an annotation inside a branch is just as legal but rarer
            if isinstance(st, ast.Assign) and len(st.targets) == 1 and isinstance(st.targets[0], ast.Name) \
                    and st.targets[0].id not in declared and st.targets[0].id not in seen and st.targets[0].id not in params:
                seen.add(st.targets[0].id)
                new.append(ast.AnnAssign(target=ast.Name(id=st.targets[0].id, ctx=ast.Store()), annotation=ast.Constant(value="object"),
                                         value=st.value, simple=1))
            else:
                new.append(st)
        node.body = new
        return node
    visit_AsyncFunctionDef = visit_FunctionDef


def v_annotated_locals(d: Path):
    _rewrite(d, _Annot)


# ---------------------------------------------------------------- `return <call or f-string>`  ->  `_result = ...; return _result`
class _RetTemp(ast.NodeTransformer):
    def _fix(self, body):
        out = []
        for st in body:
            if isinstance(st, ast.Return) and isinstance(st.value, (ast.Call, ast.JoinedStr, ast.BinOp, ast.IfExp)):
                out.append(ast.Assign(targets=[ast.Name(id="_result", ctx=ast.Store())], value=st.value))
                out.append(ast.Return(value=ast.Name(id="_result", ctx=ast.Load())))
            else:
                out.append(st)
        return out

    def generic_visit(self, node):
        super().generic_visit(node)
        for fld in ("body", "orelse", "finalbody"):
            v = getattr(node, fld, None)
            if isinstance(v, list) and v and isinstance(v[0], ast.stmt):
                setattr(node, fld, self._fix(v))
        return node

    def visit_Lambda(self, node):
        return node


def v_return_temporaries(d: Path):
    _rewrite(d, _RetTemp)


VARIANTS = {
    "debug log line at the top of every function": v_log_lines,
    "if/else branches swapped under a negated test": v_negated_ifs,
    "first assignment of top-level locals annotated": v_annotated_locals,
    "returned expressions bound to a temporary first": v_return_temporaries,
}


# ---------------------------------------------------------------- comparisons re-spelled: a != b -> not a == b, x is not None -> not x is None, a not in b -> not a in b
class _CmpSpell(ast.NodeTransformer):
    MAP = {ast.NotEq: ast.Eq, ast.IsNot: ast.Is, ast.NotIn: ast.In}

    def visit_Compare(self, node):
        self.generic_visit(node)
        if len(node.ops) == 1 and type(node.ops[0]) in self.MAP:
            return ast.UnaryOp(op=ast.Not(), operand=ast.Compare(left=node.left, ops=[self.MAP[type(node.ops[0])]()], comparators=node.comparators))
        return node


def v_comparisons_respelled(d: Path):
    _rewrite(d, _CmpSpell)


# ---------------------------------------------------------------- `if c: ...return/raise` followed by REST  ->  `if c: ... else: REST`
def _terminates(body) -> bool:
    return bool(body) and isinstance(body[-1], (ast.Return, ast.Raise, ast.Continue, ast.Break))


class _ElseAfterReturn(ast.NodeTransformer):
    def _fix(self, body):
        for i, st in enumerate(body):
            if isinstance(st, ast.If) and not st.orelse and _terminates(st.body) and i + 1 < len(body):
                st.orelse = self._fix(body[i + 1:])
                return body[:i + 1]
        return body

    def generic_visit(self, node):
        super().generic_visit(node)
        for fld in ("body", "orelse", "finalbody"):
            v = getattr(node, fld, None)
            if isinstance(v, list) and v and isinstance(v[0], ast.stmt) and not isinstance(node, (ast.ClassDef, ast.Module)):
                setattr(node, fld, self._fix(v))
        return node


def v_else_after_return(d: Path):
    _rewrite(d, _ElseAfterReturn)


# ---------------------------------------------------------------- f-strings without format specs spelled as concatenations
class _Concat(ast.NodeTransformer):
    def visit_JoinedStr(self, node):
        self.generic_visit(node)
        if not node.values or any(isinstance(v, ast.FormattedValue) and (v.format_spec is not None or v.conversion != -1) for v in node.values):
            return node
        parts = []
        for v in node.values:
            if isinstance(v, ast.Constant):
                parts.append(v)
            else:
                parts.append(ast.Call(func=ast.Name(id="str", ctx=ast.Load()), args=[v.value], keywords=[]))
        if not any(isinstance(p, ast.Call) for p in parts):
            return node
        e = parts[0]
        for p in parts[1:]:
            e = ast.BinOp(left=e, op=ast.Add(), right=p)
        if isinstance(e, ast.Call):         # a lone {x}
            return e
        return e


def v_fstrings_as_concatenation(d: Path):
    _rewrite(d, _Concat)


VARIANTS.update({
    "comparisons re-spelled with not": v_comparisons_respelled,
    "else after a terminating if-body": v_else_after_return,
    "f-strings spelled as concatenations": v_fstrings_as_concatenation,
})


# ---------------------------------------------------------------- private helpers renamed (definition and every reference in the package)
def v_private_functions_renamed(d: Path):
    files = _py_files(d)
    trees = {p: ast.parse(p.read_text()) for p in files}
    names = set()
    for t in trees.values():
        for n in ast.walk(t):
            if isinstance(n, (ast.FunctionDef, ast.AsyncFunctionDef)) and n.name.startswith("_") and not n.name.startswith("__"):
                names.add(n.name)
    # names that are also used as attribute/field names elsewhere are left alone (a textual rename would not be safe)
    fields = {n.attr for t in trees.values() for n in ast.walk(t) if isinstance(n, ast.Attribute) and isinstance(n.ctx, ast.Store)}
    names -= fields
    names -= {"_find"}          # imported by name in the project's own tests
    ren = {n: n + "_helper" for n in names}
    for p, t in trees.items():
        for n in ast.walk(t):
            if isinstance(n, (ast.FunctionDef, ast.AsyncFunctionDef)) and n.name in ren:
                n.name = ren[n.name]
            elif isinstance(n, ast.Name) and n.id in ren:
                n.id = ren[n.id]
            elif isinstance(n, ast.Attribute) and n.attr in ren:
                n.attr = ren[n.attr]
            elif isinstance(n, ast.ImportFrom):
                for a in n.names:
                    if a.name in ren:
                        a.name = ren[a.name]
        ast.fix_missing_locations(t)
        p.write_text(ast.unparse(t) + "\n")


VARIANTS["private helper functions renamed"] = v_private_functions_renamed


# ---------------------------------------------------------------- methods of every class sorted by name (dunder methods first, in their order)
class _SortMethods(ast.NodeTransformer):
    def visit_ClassDef(self, node):
        self.generic_visit(node)
        funcs = [n for n in node.body if isinstance(n, (ast.FunctionDef, ast.AsyncFunctionDef))]
        # properties with setters (two defs of one name) and overloads keep their relative order: stable sort by name
        if not funcs:
            return node
        first = next(i for i, n in enumerate(node.body) if isinstance(n, (ast.FunctionDef, ast.AsyncFunctionDef)))
        head = node.body[:first]
        rest_other = [n for n in node.body[first:] if not isinstance(n, (ast.FunctionDef, ast.AsyncFunctionDef))]
        if rest_other:
            return node     # class-level statements between methods may depend on the methods above them: leave the class alone
        dunder = [f for f in funcs if f.name.startswith("__")]
        plain = sorted((f for f in funcs if not f.name.startswith("__")), key=lambda f: f.name)
        node.body = head + dunder + plain
        return node


def v_methods_sorted(d: Path):
    _rewrite(d, _SortMethods)


# ---------------------------------------------------------------- module import aliases renamed (import a.b.c as x -> as c_mod)
def v_import_aliases_renamed(d: Path):
    root = d
    for p in _py_files(d):
        tree = ast.parse(p.read_text())
        ren = {}
        bound = {n.id for n in ast.walk(tree) if isinstance(n, ast.Name) and isinstance(n.ctx, ast.Store)} | \
                {a.arg for n in ast.walk(tree) if isinstance(n, ast.arguments) for a in n.args + n.kwonlyargs + n.posonlyargs}
        for n in tree.body:
            if isinstance(n, ast.Import):
                for a in n.names:
                    if a.asname and a.name.startswith("func_adl_xAOD.") and a.asname not in bound:
                        ren[a.asname] = a.name.rsplit(".", 1)[-1] + "_mod"
            elif isinstance(n, ast.ImportFrom) and n.module and n.module.startswith("func_adl_xAOD") and n.level == 0:
                for a in n.names:
                    modpath = root / (n.module.replace(".", "/")) / (a.name + ".py")
                    if modpath.exists() and (a.asname or a.name) not in bound:
                        ren[a.asname or a.name] = a.name + "_mod"
        if not ren:
            continue
        for n in ast.walk(tree):
            if isinstance(n, ast.Import):
                for a in n.names:
                    if a.asname in ren:
                        a.asname = ren[a.asname]
            elif isinstance(n, ast.ImportFrom):
                for a in n.names:
                    if (a.asname or a.name) in ren and n.module and n.module.startswith("func_adl_xAOD"):
                        a.asname = ren[a.asname or a.name]
            elif isinstance(n, ast.Name) and n.id in ren:
                n.id = ren[n.id]
        ast.fix_missing_locations(tree)
        p.write_text(ast.unparse(tree) + "\n")


# ---------------------------------------------------------------- keyword arguments that continue the positional prefix are passed positionally
def v_keywords_positional(d: Path):
    files = _py_files(d)
    trees = {p: ast.parse(p.read_text()) for p in files}
    sigs = {}
    for t in trees.values():
        for n in ast.walk(t):
            if isinstance(n, ast.ClassDef):
                init = [m for m in n.body if isinstance(m, ast.FunctionDef) and m.name == "__init__"]
                if init and not init[0].args.vararg and not init[0].args.posonlyargs:
                    sigs.setdefault(n.name, []).append([a.arg for a in init[0].args.args][1:])
            if isinstance(n, ast.FunctionDef) and not n.args.vararg and not n.args.posonlyargs and not n.name.startswith("__"):
                params = [a.arg for a in n.args.args]
                sigs.setdefault(n.name, []).append(params[1:] if params[:1] in (["self"], ["cls"]) else params)
    uniq = {k: v[0] for k, v in sigs.items() if len(v) == 1}
    for p, t in trees.items():
        for n in ast.walk(t):
            if isinstance(n, ast.Call) and not any(isinstance(a, ast.Starred) for a in n.args) and all(k.arg for k in n.keywords):
                name = n.func.attr if isinstance(n.func, ast.Attribute) else n.func.id if isinstance(n.func, ast.Name) else None
                params = uniq.get(name)
                if params is None:
                    continue
                while n.keywords and len(n.args) < len(params) and n.keywords[0].arg == params[len(n.args)]:
                    n.args.append(n.keywords.pop(0).value)
        ast.fix_missing_locations(t)
        p.write_text(ast.unparse(t) + "\n")


# ---------------------------------------------------------------- a docstring for every function that has none
class _Doc(ast.NodeTransformer):
    def visit_FunctionDef(self, node):
        self.generic_visit(node)
        if not _docstring_offset(node.body):
            node.body.insert(0, ast.Expr(value=ast.Constant(value=f"{node.name.replace('_', ' ').strip()}.")))
        return node
    visit_AsyncFunctionDef = visit_FunctionDef


def v_docstrings_added(d: Path):
    _rewrite(d, _Doc)


VARIANTS.update({
    "methods of every class sorted by name": v_methods_sorted,
    "module import aliases renamed": v_import_aliases_renamed,
    "keyword arguments passed positionally": v_keywords_positional,
    "docstring added to every function": v_docstrings_added,
})


# ---------------------------------------------------------------- every argument after the first passed by keyword (calls to the package's own callables)
def v_arguments_by_keyword(d: Path):
    import sys
    sys.path.insert(0, str(Path(__file__).resolve().parents[1]))
    from sa.core.callform import signatures
    files = _py_files(d)
    trees = {p: ast.parse(p.read_text()) for p in files}
    sigs = signatures({str(p): t for p, t in trees.items()})
    for p, t in trees.items():
        for n in ast.walk(t):
            if isinstance(n, ast.Call) and not any(isinstance(a, ast.Starred) for a in n.args) and all(k.arg for k in n.keywords):
                name = n.func.attr if isinstance(n.func, ast.Attribute) else n.func.id if isinstance(n.func, ast.Name) else None
                if name not in sigs:
                    continue
                params, _ = sigs[name]
                if len(n.args) > len(params) or len(n.args) < 2:
                    continue
                extra = [ast.keyword(arg=params[i], value=a) for i, a in enumerate(n.args) if i >= 1]
                n.args = n.args[:1]
                n.keywords = extra + n.keywords
        ast.fix_missing_locations(t)
        p.write_text(ast.unparse(t) + "\n")


VARIANTS["arguments after the first passed by keyword"] = v_arguments_by_keyword
